#!/venv/bin/python
"""Confirm a seeded change delivered by a sub-agent and file it under /verif/seeded/<name>/.

usage: intake_seed.py <property id> <n> [--checks C05 C03 ...|all] [--name NAME]
reads /tmp/seed-<ID>/out/change<n>.diff, demo<n>.py, notes<n>.md

Confirms in a fresh scratch worktree (never /repo): patch applies; suite still passes with it; demo exits 1 with the
change and 0 without; then runs the checks against it and records which ones report a violation.
"""
import argparse
import json
import os
import re
import shutil
import subprocess
import sys
import tempfile
import time

REPO = '/repo'
ALL = ['C%02d' % i for i in range(1, 21)]


def sh(cmd, **kw):
    return subprocess.run(cmd, shell=True, capture_output=True, text=True, **kw)


def main():
    ap = argparse.ArgumentParser()
    ap.add_argument('pid')
    ap.add_argument('n')
    ap.add_argument('--checks', nargs='*', default=['all'])
    ap.add_argument('--name')
    ap.add_argument('--src')
    ap.add_argument('--tier', default='quick')
    a = ap.parse_args()
    src = a.src or '/tmp/seed-%s/out' % a.pid
    patch = os.path.join(src, 'change%s.diff' % a.n)
    demo = os.path.join(src, 'demo%s.py' % a.n)
    notes = os.path.join(src, 'notes%s.md' % a.n)
    name = a.name or '%s-%s' % (a.pid, a.n)
    checks = ALL if a.checks == ['all'] else a.checks
    wt = tempfile.mkdtemp(prefix='rxsci-seed-')
    os.rmdir(wt)
    scratch = tempfile.mkdtemp(prefix='rxsci-seed-out-')
    meta = {'name': name, 'breaks_property': a.pid, 'ran': []}
    if sh('git -C %s worktree add --detach %s HEAD' % (REPO, wt)).returncode:
        print('cannot create worktree')
        return 3
    try:
        run = lambda what: sh('cd %s && PYTHONPATH=%s /venv/bin/python %s' % (wt, wt, what))
        r0 = run(demo)
        meta['demo_exit_without_change'] = r0.returncode
        r = sh('git -C %s apply %s' % (wt, patch))
        if r.returncode:
            print('REJECT: patch does not apply on current HEAD: %s' % r.stderr.strip()[:300])
            return 1
        files = sh('git -C %s diff --stat' % wt).stdout
        meta['files'] = re.findall(r'^\s*(\S+)\s+\|', files, re.M)
        r1 = run(demo)
        meta['demo_exit_with_change'] = r1.returncode
        meta['demo_output_with_change'] = (r1.stdout + r1.stderr).strip()[-600:]
        rs = sh('cd %s && PYTHONPATH=%s /venv/bin/python -m pytest -q -p no:cacheprovider --timeout=900 2>&1 | tail -1' % (wt, wt))
        meta['suite_with_change'] = rs.stdout.strip()
        ok = r0.returncode == 0 and r1.returncode == 1 and '257 passed' in rs.stdout and 'failed' not in rs.stdout
        meta['confirmed'] = ok
        print('demo without=%d with=%d suite=%s -> %s' % (r0.returncode, r1.returncode, rs.stdout.strip(), 'CONFIRMED' if ok else 'NOT CONFIRMED'))
        if not ok:
            print(meta['demo_output_with_change'])
            return 1
        env = dict(os.environ, RXSCI_REPO=wt, MC_EVIDENCE_DIR=os.path.join(scratch, 'evidence'),
                   MC_REPLAY_DIR=os.path.join(scratch, 'replays'), PYTHONHASHSEED='0')
        caught = {}
        for c in checks:
            t0 = time.time()
            r = sh('cd /verif && /venv/bin/python -m mc %s --tier %s' % (c, a.tier), env=env)
            sigs = [l.split('signature=')[1].split(' cases=')[0] for l in r.stdout.splitlines() if l.startswith('VIOLATION') and 'signature=' in l]
            if r.returncode == 1:
                caught[c] = sigs[:4]
            elif r.returncode != 0:
                caught[c] = ['exit=%d %s' % (r.returncode, r.stdout.strip()[-300:])]
            meta['ran'].append('python -m mc %s --tier %s -> exit %d (%.0fs)' % (c, a.tier, r.returncode, time.time() - t0))
        meta['caught_by'] = caught
        print('CAUGHT-BY:', json.dumps(caught)[:1500] if caught else 'none')
        dest = os.path.join('/verif/seeded', name)
        os.makedirs(dest, exist_ok=True)
        shutil.copy(patch, os.path.join(dest, 'patch.diff'))
        shutil.copy(demo, os.path.join(dest, 'demo.py'))
        if os.path.exists(notes):
            meta['needs_to_manifest'] = open(notes).read().strip()
        with open(os.path.join(dest, 'meta.json'), 'w') as f:
            json.dump(meta, f, indent=1)
        return 0
    finally:
        sh('git -C %s worktree remove --force %s' % (REPO, wt))
        shutil.rmtree(wt, ignore_errors=True)
        shutil.rmtree(scratch, ignore_errors=True)
        sh('git -C %s worktree prune' % REPO)


if __name__ == '__main__':
    sys.exit(main())
