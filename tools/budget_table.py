#!/venv/bin/python
"""Markdown table of what the committed evidence files report (quick tier)."""
import glob
import json
print('| check | level | executions | transitions | states | traces compared | programs | wall s |')
print('|---|---|---|---|---|---|---|---|')
for f in sorted(glob.glob('/verif/evidence/C*.json')):
    e = json.load(open(f))
    c = e['coverage']
    print('| %s | %s | %s | %s | %s | %s | %s | %s |' % (e['property_id'], e['level'], f"{c['evaluations']:,}", f"{c['transitions']:,}", f"{c['states']:,}",
                                                       f"{c['traces_validated_against_impl']:,}", c.get('programs', ''), e['wall_s']))
