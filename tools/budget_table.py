#!/venv/bin/python
"""Markdown table for DESIGN.md section 9 from two directories of evidence files.

usage: budget_table.py [quick evidence dir (default /verif/evidence)] [thorough evidence dir]
(a thorough run that must not overwrite the committed evidence: MC_EVIDENCE_DIR=<dir> python -m mc <ID> --tier thorough)"""
import glob
import json
import os
import sys

quick = sys.argv[1] if len(sys.argv) > 1 else '/verif/evidence'
thorough = sys.argv[2] if len(sys.argv) > 2 else None


def row(e):
    c = e['coverage']
    return '%s | %s | %s | %s s' % (f"{c['evaluations']:,}", f"{c['transitions']:,}", f"{c['states']:,}", round(e['wall_s']))


print('| check | quick: executions | transitions | distinct states | wall | thorough: executions | transitions | distinct states | wall |')
print('|---|---|---|---|---|---|---|---|---|')
for f in sorted(glob.glob(os.path.join(quick, 'C*.json'))):
    e = json.load(open(f))
    t = None
    if thorough and os.path.exists(os.path.join(thorough, os.path.basename(f))):
        t = json.load(open(os.path.join(thorough, os.path.basename(f))))
    print('| %s | %s | %s |' % (e['property_id'], row(e), row(t) if t else ' | | | '))
