#!/venv/bin/python
"""Systematic first-order mutation analysis of the anchored rxsci files (a detection experiment, not a check).

stage 1 (gen):    enumerate AST mutants (comparison / arithmetic / boolean / constant / statement-deletion) of the chosen files
stage 2 (suite):  copy rxsci + tests to a scratch dir per mutant (under /dev/shm), run the pinned suite with -x; keep survivors
stage 3 (checks): run the quick tier of the checks mapped to the mutated file against each survivor (RXSCI_REPO = copy)

usage: automut.py gen|suite|checks|recheck|report  (state in /dev/shm/automut/state.json)
"""
import ast
import copy
import json
import os
import shutil
import subprocess
import sys
import time
from concurrent.futures import ProcessPoolExecutor

REPO = '/repo'
WORK = '/dev/shm/automut'
STATE = os.path.join(WORK, 'state.json')

FILES = {
    'rxsci/operators/scan.py': ['C09', 'C01', 'C02'],
    'rxsci/operators/group_by.py': ['C04', 'C03', 'C02'],
    'rxsci/operators/multiplex.py': ['C01', 'C03', 'C13'],
    'rxsci/operators/tee_map.py': ['C08', 'C01', 'C02'],
    'rxsci/operators/first.py': ['C10', 'C02'],
    'rxsci/operators/last.py': ['C10', 'C02'],
    'rxsci/operators/take.py': ['C10', 'C02'],
    'rxsci/operators/distinct.py': ['C10', 'C02'],
    'rxsci/operators/distinct_until_changed.py': ['C10', 'C09'],
    'rxsci/operators/map.py': ['C13', 'C01'],
    'rxsci/operators/filter.py': ['C13', 'C01'],
    'rxsci/operators/flat_map.py': ['C01', 'C03'],
    'rxsci/operators/start_with.py': ['C10', 'C02'],
    'rxsci/operators/assert_.py': ['C01', 'C02'],
    'rxsci/data/roll.py': ['C05', 'C03', 'C11'],
    'rxsci/data/split.py': ['C06', 'C03'],
    'rxsci/data/time_split.py': ['C07', 'C03'],
    'rxsci/data/batch.py': ['C10', 'C11', 'C20'],
    'rxsci/data/lag.py': ['C10', 'C02'],
    'rxsci/data/pad.py': ['C10', 'C02'],
    'rxsci/data/codec.py': ['C17', 'C19'],
    'rxsci/state/memory_store.py': ['C14', 'C02', 'C04'],
    'rxsci/state/store.py': ['C14', 'C02'],
    'rxsci/state/with_store.py': ['C02', 'C01', 'C03'],
    'rxsci/framing/line.py': ['C15', 'C18', 'C19'],
    'rxsci/framing/length_prefix.py': ['C15'],
    'rxsci/compression/z.py': ['C16', 'C19'],
    'rxsci/compression/zstd.py': ['C16', 'C19'],
    'rxsci/container/csv.py': ['C18'],
    'rxsci/container/json.py': ['C19', 'C17'],
    'rxsci/container/parquet.py': ['C20'],
    'rxsci/io/file.py': ['C19', 'C18'],
    'rxsci/math/sum.py': ['C12'], 'rxsci/math/mean.py': ['C12'], 'rxsci/math/min.py': ['C12'], 'rxsci/math/max.py': ['C12'],
    'rxsci/math/variance.py': ['C12'], 'rxsci/math/stddev.py': ['C12'], 'rxsci/math/formal/variance.py': ['C12'],
    'rxsci/math/formal/stddev.py': ['C12'], 'rxsci/math/formal/__init__.py': ['C12'],
    'rxsci/error/ignore.py': ['C13'], 'rxsci/error/map.py': ['C13'], 'rxsci/error/router.py': ['C13'],
}

CMP = {ast.Eq: ast.NotEq, ast.NotEq: ast.Eq, ast.Lt: ast.LtE, ast.LtE: ast.Lt, ast.Gt: ast.GtE, ast.GtE: ast.Gt,
       ast.Is: ast.Eq, ast.IsNot: ast.NotEq, ast.In: ast.NotIn, ast.NotIn: ast.In}
BIN = {ast.Add: ast.Sub, ast.Sub: ast.Add, ast.Mult: ast.FloorDiv, ast.FloorDiv: ast.Mult, ast.Mod: ast.FloorDiv, ast.Div: ast.Mult}


def mutants_of(src):
    """Yield (lineno, description, mutated source)."""
    tree = ast.parse(src)
    nodes = list(ast.walk(tree))
    for idx, node in enumerate(nodes):
        muts = []
        if isinstance(node, ast.Compare) and len(node.ops) == 1 and type(node.ops[0]) in CMP:
            muts.append(('cmp %s->%s' % (type(node.ops[0]).__name__, CMP[type(node.ops[0])].__name__),
                         lambda n: setattr(n, 'ops', [CMP[type(n.ops[0])]()])))
        if isinstance(node, ast.BinOp) and type(node.op) in BIN:
            muts.append(('bin %s->%s' % (type(node.op).__name__, BIN[type(node.op)].__name__),
                         lambda n: setattr(n, 'op', BIN[type(n.op)]())))
        if isinstance(node, ast.BoolOp):
            muts.append(('bool and<->or', lambda n: setattr(n, 'op', ast.Or() if isinstance(n.op, ast.And) else ast.And())))
        if isinstance(node, ast.UnaryOp) and isinstance(node.op, ast.Not):
            muts.append(('drop not', 'DROPNOT'))
        if isinstance(node, ast.Constant) and isinstance(node.value, bool):
            muts.append(('const %r->%r' % (node.value, not node.value), lambda n: setattr(n, 'value', not n.value)))
        elif isinstance(node, ast.Constant) and isinstance(node.value, int) and not isinstance(node.value, bool) and abs(node.value) < 100000:
            muts.append(('const %d->%d' % (node.value, node.value + 1), lambda n: setattr(n, 'value', n.value + 1)))
            if node.value != 0:
                muts.append(('const %d->%d' % (node.value, node.value - 1), lambda n: setattr(n, 'value', n.value - 1)))
        if isinstance(node, ast.Expr) and isinstance(node.value, ast.Call) and not (isinstance(node.value.func, ast.Name) and node.value.func.id == 'print'):
            muts.append(('delete statement', 'DELETE'))
        if isinstance(node, ast.Return) and node.value is not None and False:
            pass
        for desc, fn in muts:
            t2 = copy.deepcopy(tree)
            n2 = list(ast.walk(t2))[idx]
            if fn == 'DELETE':
                n2.value = ast.Constant(value=None)
            elif fn == 'DROPNOT':
                # replace `not x` by `x` in its parent
                for parent in ast.walk(t2):
                    for field, value in ast.iter_fields(parent):
                        if value is n2:
                            setattr(parent, field, n2.operand)
                        elif isinstance(value, list):
                            for i, v in enumerate(value):
                                if v is n2:
                                    value[i] = n2.operand
            else:
                fn(n2)
            try:
                out = ast.unparse(ast.fix_missing_locations(t2))
            except Exception:
                continue
            yield getattr(node, 'lineno', 0), desc, out


def load():
    return json.load(open(STATE)) if os.path.exists(STATE) else {'mutants': []}


def save(st):
    os.makedirs(WORK, exist_ok=True)
    tmp = STATE + '.tmp'
    json.dump(st, open(tmp, 'w'))
    os.replace(tmp, STATE)


def gen():
    st = {'mutants': []}
    for f in FILES:
        src = open(os.path.join(REPO, f)).read()
        base = ast.unparse(ast.parse(src))
        seen = {base}
        for lineno, desc, out in mutants_of(src):
            if out in seen:
                continue
            seen.add(out)
            st['mutants'].append({'id': len(st['mutants']), 'file': f, 'line': lineno, 'desc': desc, 'status': 'new'})
            os.makedirs(os.path.join(WORK, 'src'), exist_ok=True)
            open(os.path.join(WORK, 'src', '%d.py' % (len(st['mutants']) - 1)), 'w').write(out)
    save(st)
    print('generated', len(st['mutants']), 'mutants')


def make_copy(m):
    d = os.path.join(WORK, 'wt', str(m['id']))
    if os.path.exists(d):
        shutil.rmtree(d)
    os.makedirs(d)
    shutil.copytree(os.path.join(REPO, 'rxsci'), os.path.join(d, 'rxsci'), ignore=shutil.ignore_patterns('__pycache__'))
    shutil.copytree(os.path.join(REPO, 'tests'), os.path.join(d, 'tests'), ignore=shutil.ignore_patterns('__pycache__'))
    for extra in ('setup.cfg', 'pyproject.toml'):
        if os.path.exists(os.path.join(REPO, extra)):
            shutil.copy(os.path.join(REPO, extra), d)
    shutil.copy(os.path.join(WORK, 'src', '%d.py' % m['id']), os.path.join(d, m['file']))
    return d


def run_suite(m):
    d = make_copy(m)
    env = dict(os.environ, PYTHONPATH=d, PYTHONDONTWRITEBYTECODE='1')
    try:
        r = subprocess.run('cd %s && /venv/bin/python -m pytest -x -q -p no:cacheprovider --timeout=120 2>&1 | tail -1' % d, shell=True,
                           capture_output=True, text=True, env=env, timeout=600)
        out = r.stdout.strip()
    except subprocess.TimeoutExpired:
        out = 'timeout'
    survived = ('passed' in out and 'failed' not in out and 'error' not in out.lower())
    if not survived:
        shutil.rmtree(d, ignore_errors=True)
    return m['id'], 'survived' if survived else 'killed-by-suite', out[-80:]


def suite():
    st = load()
    todo = [m for m in st['mutants'] if m['status'] == 'new']
    with ProcessPoolExecutor(16) as ex:
        for n, (mid, status, out) in enumerate(ex.map(run_suite, todo)):
            st['mutants'][mid]['status'] = status
            st['mutants'][mid]['suite'] = out
            if n % 50 == 0:
                save(st)
    save(st)
    print({s: sum(1 for m in st['mutants'] if m['status'] == s) for s in set(m['status'] for m in st['mutants'])})


EXTRA = {'rxsci/operators/scan.py': ['C13'], 'rxsci/operators/map.py': ['C02'], 'rxsci/operators/filter.py': ['C02']}
for _f in ('group_by', 'tee_map', 'first', 'last', 'take', 'distinct', 'distinct_until_changed', 'flat_map', 'start_with', 'assert_', 'multiplex'):
    EXTRA.setdefault('rxsci/operators/%s.py' % _f, []).append('C13')          # an unhandled mux error travels through these
for _f in ('roll', 'split', 'time_split', 'lag', 'pad', 'batch'):
    EXTRA.setdefault('rxsci/data/%s.py' % _f, []).append('C13')


def check_one(m):
    """Run the quick tier of every check mapped to the mutated file (stop at the first that reports)."""
    d = os.path.join(WORK, 'wt', str(m['id']))
    if not os.path.exists(d):
        d = make_copy(m)
    env = dict(os.environ, RXSCI_REPO=d, MC_EVIDENCE_DIR=os.path.join(WORK, 'ev', str(m['id'])), MC_REPLAY_DIR=os.path.join(WORK, 'rp', str(m['id'])),
               PYTHONHASHSEED='0', MC_UNIT_TIMEOUT='120')
    caught, ran = [], []
    for c in FILES[m['file']] + EXTRA.get(m['file'], []):
        ran.append(c)
        r = subprocess.run('cd /verif && nice /venv/bin/python -m mc %s --tier quick --workers 4' % c, shell=True, capture_output=True, text=True, env=env)
        if r.returncode == 1:
            sig = [l.split('signature=')[1].split(' cases=')[0] for l in r.stdout.splitlines() if l.startswith('VIOLATION') and 'signature=' in l][:2]
            caught.append([c, sig])
            break
        elif r.returncode != 0:
            caught.append([c, ['exit %d' % r.returncode]])
            break
    shutil.rmtree(d, ignore_errors=True)
    shutil.rmtree(env['MC_EVIDENCE_DIR'], ignore_errors=True)
    shutil.rmtree(env['MC_REPLAY_DIR'], ignore_errors=True)
    return m['id'], caught, ran


def checks(limit=None):
    st = load()
    for m in st['mutants']:
        # `type(i) is X`, `v is MARKER`, `flag is True`: == and is agree on every value these sites see -> equivalent by construction
        if m['status'] in ('survived', 'not-caught') and ('Is->Eq' in m['desc'] or 'IsNot->NotEq' in m['desc']):
            m['status'] = 'skipped-is-eq'
    todo = [m for m in st['mutants'] if m['status'] in ('survived', 'not-caught')]
    t0 = time.time()
    with ProcessPoolExecutor(5) as ex:
        for n, (mid, caught, ran) in enumerate(ex.map(check_one, todo[:limit])):
            m = st['mutants'][mid]
            m['status'] = 'caught' if caught else 'not-caught-all'
            m['caught'] = caught
            m['ran'] = ran
            save(st)
            print('%d/%d #%d %s:%d %s -> %s %s (%.0fs)' % (n + 1, len(todo), m['id'], m['file'], m['line'], m['desc'], m['status'],
                                                            caught[:1], time.time() - t0), flush=True)


def report():
    st = load()
    from collections import Counter
    print(Counter(m['status'] for m in st['mutants']))
    for m in st['mutants']:
        if m['status'].startswith('not-caught'):
            print('#%d %s:%d %s' % (m['id'], m['file'], m['line'], m['desc']))


if __name__ == '__main__':
    cmd = sys.argv[1]
    if cmd == 'gen':
        gen()
    elif cmd == 'suite':
        suite()
    elif cmd == 'checks':
        checks(None)
    elif cmd == 'recheck':
        # after the checks were extended: run the survivors of the previous pass again (own checks first, then EXTRA)
        st_ = load()
        for m_ in st_['mutants']:
            if m_['status'] == 'not-caught-all':
                m_['status'] = 'survived'
                m_['previous'] = 'not-caught-all'
        save(st_)
        checks(None)
    else:
        report()
