#!/venv/bin/python
"""Print the markdown table of seeded changes (from /verif/seeded/*/meta.json) for DESIGN.md section 7."""
import glob
import json
import os
import re

rows = []
for d in sorted(glob.glob('/verif/seeded/*')):
    mp = os.path.join(d, 'meta.json')
    if not os.path.exists(mp):
        continue
    m = json.load(open(mp))
    name = os.path.basename(d)
    files = ', '.join(sorted(set(os.path.basename(f) for f in m.get('files', [])))) or ''
    if not files and os.path.exists(os.path.join(d, 'patch.diff')):
        files = ', '.join(sorted(set(os.path.basename(f) for f in re.findall(r'^\+\+\+ b/(\S+)', open(os.path.join(d, 'patch.diff')).read(), re.M))))
    what = m.get('needs_to_manifest') or m.get('what') or ''
    what = re.sub(r'\s+', ' ', what.replace('|', '/'))
    what = re.sub(r'^#+\s*', '', what)[:230]
    cb = m.get('caught_by')
    if isinstance(cb, dict):
        cb = ' '.join(sorted(cb)) or 'none'
    rows.append('| %s | %s | %s | %s |' % (name, files, what, cb or 'none'))
print('| seeded change | file(s) | what it is / what it needs to manifest | reported by (quick tier) |')
print('|---|---|---|---|')
print('\n'.join(rows))
