#!/bin/bash
# Run every registered check on /repo's current tree (tier quick by default) and validate the evidence files.
cd /verif
tier=${1:-quick}
rc=0
for id in C01 C02 C03 C04 C05 C06 C07 C08 C09 C10 C11 C12 C13 C14 C15 C16 C17 C18 C19 C20; do
  start=$(date +%s)
  out=$(PYTHONHASHSEED=0 /venv/bin/python -m mc $id --tier $tier 2>&1)
  code=$?
  echo "== $id exit=$code $(( $(date +%s) - start ))s"
  echo "$out" | grep -E "^(VIOLATION|KNOWN-FINDING|HARNESS|VACUITY|C[0-9]+ )" | cut -c1-260
  [ $code -ne 0 ] && rc=1
done
python3-vt - <<'P'
import json, jsonschema, glob
s = json.load(open('/root/.vp/EVIDENCE.schema.json'))
for f in sorted(glob.glob('/verif/evidence/*.json')):
    jsonschema.validate(json.load(open(f)), s)
jsonschema.validate(json.load(open('/verif/MANIFEST.json')), json.load(open('/root/.vp/MANIFEST.schema.json')))
print('evidence + manifest valid:', len(glob.glob('/verif/evidence/*.json')))
P
exit $rc
