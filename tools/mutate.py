#!/venv/bin/python
"""Apply a textual mutant (or a patch file) to /repo, run checks, and always revert.

usage: mutate.py --file rxsci/data/split.py --old '...' --new '...' [--count N] --checks C06 C02 [--tier quick] [--suite]
       mutate.py --patch /verif/seeded/x/patch.diff --checks C06
"""
import argparse
import os
import subprocess
import sys
import time

REPO = '/repo'


def sh(cmd, **kw):
    return subprocess.run(cmd, shell=True, capture_output=True, text=True, **kw)


def main():
    ap = argparse.ArgumentParser()
    ap.add_argument('--file')
    ap.add_argument('--old')
    ap.add_argument('--new')
    ap.add_argument('--count', type=int, default=1)
    ap.add_argument('--patch')
    ap.add_argument('--checks', nargs='*', default=[])
    ap.add_argument('--tier', default='quick')
    ap.add_argument('--suite', action='store_true')
    a = ap.parse_args()
    if sh('git -C %s status --porcelain' % REPO).stdout.strip():
        print('refusing: /repo not clean')
        return 3
    try:
        if a.patch:
            r = sh('git -C %s apply %s' % (REPO, a.patch))
            if r.returncode:
                print('patch does not apply:', r.stderr)
                return 3
        else:
            p = os.path.join(REPO, a.file)
            s = open(p).read()
            if s.count(a.old) < 1:
                print('old text not found')
                return 3
            s = s.replace(a.old, a.new, a.count)
            open(p, 'w').write(s)
        if a.suite:
            r = sh('cd /repo && /venv/bin/python -m pytest -q -p no:cacheprovider --timeout=900 2>&1 | tail -1')
            print('suite:', r.stdout.strip())
        results = {}
        for c in a.checks:
            t0 = time.time()
            r = sh('cd /verif && PYTHONHASHSEED=0 /venv/bin/python -m mc %s --tier %s' % (c, a.tier))
            lines = [l for l in r.stdout.splitlines() if l.startswith(('VIOLATION', 'KNOWN', 'HARNESS', 'VACUITY'))]
            results[c] = r.returncode
            print('%s exit=%d %.0fs %s' % (c, r.returncode, time.time() - t0, ' | '.join(l[:150] for l in lines[:4])))
            if r.returncode not in (0, 1):
                print(r.stdout[-1500:], r.stderr[-1500:])
        return 0
    finally:
        sh('git -C %s checkout -- .' % REPO)
        sh('git -C %s clean -fdq -e rxsci.egg-info' % REPO)
        # evidence files were rewritten by runs on a mutated tree: caller re-runs on the clean tree when needed


if __name__ == '__main__':
    sys.exit(main())
