#!/venv/bin/python
"""Run checks against a changed copy of maki-nage/rxsci without touching /repo.

A scratch git worktree of /repo HEAD is created under /tmp, the change (a textual replacement or a
patch file) is applied there, the checks import rxsci from it (RXSCI_REPO) and write their evidence
and replay files to a scratch directory; everything is removed afterwards.

usage: mutate.py --file rxsci/data/split.py --old '...' --new '...' --checks C06 C02 [--tier quick] [--suite]
       mutate.py --patch /verif/seeded/x/patch.diff --checks all [--suite] [--demo /verif/seeded/x/demo.py]
"""
import argparse
import os
import shutil
import subprocess
import sys
import tempfile
import time

REPO = '/repo'
ALL = ['C%02d' % i for i in range(1, 21)]


def sh(cmd, **kw):
    return subprocess.run(cmd, shell=True, capture_output=True, text=True, **kw)


def main():
    ap = argparse.ArgumentParser()
    ap.add_argument('--file')
    ap.add_argument('--old')
    ap.add_argument('--new')
    ap.add_argument('--count', type=int, default=1)
    ap.add_argument('--patch')
    ap.add_argument('--reverse', action='store_true', help='apply the patch reversed (re-introduce a fixed defect)')
    ap.add_argument('--checks', nargs='*', default=[])
    ap.add_argument('--tier', default='quick')
    ap.add_argument('--suite', action='store_true')
    ap.add_argument('--demo', help='python file run with PYTHONPATH=<worktree>; exit code reported')
    ap.add_argument('--keep-going', action='store_true')
    a = ap.parse_args()
    checks = ALL if a.checks == ['all'] else a.checks
    wt = tempfile.mkdtemp(prefix='rxsci-mut-')
    scratch = tempfile.mkdtemp(prefix='rxsci-mut-out-')
    os.rmdir(wt)
    r = sh('git -C %s worktree add --detach %s HEAD' % (REPO, wt))
    if r.returncode:
        print('cannot create worktree:', r.stderr)
        return 3
    try:
        if a.patch:
            r = sh('git -C %s apply %s %s' % (wt, '-R' if a.reverse else '', os.path.abspath(a.patch)))
            if r.returncode:
                print('patch does not apply:', r.stderr.strip())
                return 3
        else:
            p = os.path.join(wt, a.file)
            s = open(p).read()
            if s.count(a.old) < 1:
                print('old text not found')
                return 3
            open(p, 'w').write(s.replace(a.old, a.new, a.count))
        env = dict(os.environ, RXSCI_REPO=wt, MC_EVIDENCE_DIR=os.path.join(scratch, 'evidence'),
                   MC_REPLAY_DIR=os.path.join(scratch, 'replays'), PYTHONHASHSEED='0')
        if a.suite:
            r = sh('cd %s && PYTHONPATH=%s /venv/bin/python -m pytest -q -p no:cacheprovider --timeout=900 2>&1 | tail -1' % (wt, wt))
            print('suite:', r.stdout.strip())
        if a.demo:
            r = sh('cd %s && PYTHONPATH=%s /venv/bin/python %s' % (wt, wt, os.path.abspath(a.demo)))
            print('demo exit=%d %s' % (r.returncode, (r.stdout + r.stderr).strip().splitlines()[-1:] ))
        caught = []
        for c in checks:
            t0 = time.time()
            r = sh('cd /verif && /venv/bin/python -m mc %s --tier %s' % (c, a.tier), env=env)
            lines = [l for l in r.stdout.splitlines() if l.startswith(('VIOLATION', 'KNOWN', 'HARNESS', 'VACUITY'))]
            if r.returncode == 1:
                caught.append(c)
            if r.returncode != 0 or len(checks) <= 4:
                print('%s exit=%d %.0fs %s' % (c, r.returncode, time.time() - t0, ' | '.join(l[:170].replace(scratch, '') for l in lines[:3])))
            if r.returncode not in (0, 1):
                print(r.stdout[-1500:], r.stderr[-1500:])
        print('CAUGHT-BY: %s' % (' '.join(caught) or 'none'))
        return 0
    finally:
        sh('git -C %s worktree remove --force %s' % (REPO, wt))
        shutil.rmtree(wt, ignore_errors=True)
        shutil.rmtree(scratch, ignore_errors=True)
        sh('git -C %s worktree prune' % REPO)


if __name__ == '__main__':
    sys.exit(main())
