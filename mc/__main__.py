"""python -m mc <ID> [--tier quick|thorough] [--workers N] [--budget seconds]"""
import argparse
import importlib
import os
import sys


def main(argv=None):
    ap = argparse.ArgumentParser(prog='mc')
    ap.add_argument('check')
    ap.add_argument('--tier', default=None, choices=['quick', 'thorough'])
    ap.add_argument('--workers', type=int, default=None)
    ap.add_argument('--budget', type=float, default=None)
    args = ap.parse_args(argv)
    if os.environ.get('PYTHONHASHSEED') != '0':
        env = dict(os.environ, PYTHONHASHSEED='0')
        os.execve(sys.executable, [sys.executable, '-m', 'mc'] + (argv or sys.argv[1:]), env)
    tier = args.tier or os.environ.get('VERIF_TIER') or 'quick'
    if tier not in ('quick', 'thorough'):
        tier = 'quick'
    try:
        seed = int(os.environ.get('VERIF_SEED', '0'))
    except ValueError:
        seed = 0
    from . import import_rxsci
    import_rxsci()
    from . import engine
    check = importlib.import_module('mc.checks.%s' % args.check.lower())
    import io
    buf = io.StringIO()
    rc = engine.run_check(check, tier, seed, workers=args.workers, budget=args.budget, out=buf)
    try:
        sys.stdout.write(buf.getvalue())
        sys.stdout.flush()
    except BrokenPipeError:      # the reader went away (e.g. `| head`): the verdict is still the exit status
        try:
            sys.stdout = open(os.devnull, 'w')
        except Exception:
            pass
    return rc


if __name__ == '__main__':
    sys.exit(main())
