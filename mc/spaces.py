"""Enumerators of the bounded spaces (complete, fixed order, simplest first)."""
import itertools


def sequences(alphabet, max_len, min_len=0):
    """All sequences over alphabet with min_len <= length <= max_len, shortest first."""
    for n in range(min_len, max_len + 1):
        for t in itertools.product(alphabet, repeat=n):
            yield list(t)


def interleavings(counts):
    """All interleavings of len(counts) sequences with the given lengths, as lists of
    sequence indices (multiset permutations), lexicographic order."""
    counts = list(counts)
    total = sum(counts)
    cur = []

    def rec():
        if len(cur) == total:
            yield list(cur)
            return
        for k in range(len(counts)):
            if counts[k] > 0:
                counts[k] -= 1
                cur.append(k)
                for r in rec():
                    yield r
                cur.pop()
                counts[k] += 1
    return rec()


def keyed_inputs(nkeys_sizes, interleave=True):
    """For each tuple of group sizes, each interleaving -> list of (group, position)."""
    for sizes in nkeys_sizes:
        if interleave:
            for order in interleavings(sizes):
                pos = [0] * len(sizes)
                out = []
                for g in order:
                    out.append((g, pos[g]))
                    pos[g] += 1
                yield sizes, out
        else:
            out = []
            for g, n in enumerate(sizes):
                out.extend((g, i) for i in range(n))
            yield sizes, out


def wf_sequences(keys, values, depth, min_depth=0, reuse=True, closed=True):
    """All well-formed raw-mux event sequences over `keys` with at most `depth` events:
    ('c',k) only when k is not live (and, unless reuse, was never live); ('n',k,v) and ('d',k)
    only when live.  With closed=True only sequences that end with no live key are produced
    (the environment completes every key before the stream ends)."""
    keys = list(keys)
    values = list(values)
    out = []
    seq = []
    live = set()
    used = set()

    def rec():
        if len(seq) >= min_depth and (not closed or not live):
            out.append(list(seq))
        if len(seq) == depth:
            return
        # cannot close everything in the remaining budget -> prune
        for k in keys:
            if k in live:
                for v in values:
                    if closed and len(live) > depth - len(seq) - 1:
                        break
                    seq.append(('n', k, v))
                    rec()
                    seq.pop()
                live.discard(k)
                seq.append(('d', k))
                rec()
                seq.pop()
                live.add(k)
            else:
                if (reuse or k not in used) and (not closed or len(live) + 1 <= depth - len(seq) - 1):
                    was = k in used
                    live.add(k)
                    used.add(k)
                    seq.append(('c', k))
                    rec()
                    seq.pop()
                    live.discard(k)
                    if not was:
                        used.discard(k)
    rec()
    out.sort(key=len)
    return out


def number_values(seq):
    """Give the j-th item of the l-th lifetime of key k the value 100*k + 10*l + j
    (for value-oblivious operators: every item is identifiable)."""
    life = {}
    pos = {}
    out = []
    for ev in seq:
        if ev[0] == 'c':
            life[ev[1]] = life.get(ev[1], -1) + 1
            pos[ev[1]] = 0
            out.append(ev)
        elif ev[0] == 'n':
            out.append(('n', ev[1], 100 * _kid(ev[1]) + 10 * life[ev[1]] + pos[ev[1]]))
            pos[ev[1]] += 1
        else:
            out.append(ev)
    return out


def _kid(k):
    return k if isinstance(k, int) else k[0]


def cut_sets(length, max_cuts=None):
    """All subsets of cut positions 1..length-1 (optionally at most max_cuts cuts)."""
    positions = list(range(1, length))
    top = len(positions) if max_cuts is None else min(max_cuts, len(positions))
    for n in range(0, top + 1):
        for c in itertools.combinations(positions, n):
            yield c


def chunk(data, cuts):
    out = []
    prev = 0
    for c in cuts:
        out.append(data[prev:c])
        prev = c
    out.append(data[prev:])
    return out


def subsets(n, max_size=None):
    top = n if max_size is None else min(n, max_size)
    for r in range(top + 1):
        for c in itertools.combinations(range(n), r):
            yield c


def shard(seq, n):
    """Split a list into n nearly equal contiguous parts (non-empty ones)."""
    seq = list(seq)
    k = max(1, (len(seq) + n - 1) // n)
    return [seq[i:i + k] for i in range(0, len(seq), k)]
