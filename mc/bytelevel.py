"""Helpers for the byte/character level checks (C15-C20)."""
import rx

from .drivers import Sink


class RawSink(Sink):
    """Sink without snapshots (bytes/str are immutable)."""

    def on_next(self, i):
        if self.completed or self.error is not None:
            self.after_end += 1
        self.items.append(i)


class SecondSubscriptionDiffers(Exception):
    """Reported through sink.error: the same observable, subscribed again, did not behave as the first time."""


def twice(obs, n_inputs, limit=3, same=None):
    """Subscribe `obs`; for short inputs subscribe it a second time and turn a different outcome into sink.error
    (every check already reports an unexpected error together with its repr)."""
    sink = RawSink()
    sink.subscribe_to(obs)
    if n_inputs <= limit and sink.error is None:
        again = RawSink()
        again.subscribe_to(obs)
        if (not same(sink.items, again.items) if same else repr(again.items) != repr(sink.items)) or again.completed != sink.completed or again.error is not None:
            sink.error = SecondSubscriptionDiffers('first: %r completed=%r; second: %r completed=%r error=%r' % (
                sink.items[:6], sink.completed, again.items[:6], again.completed, again.error))
    return sink


def run(ops, chunks, same=None):
    """same(items_a, items_b): when two runs of the operator need not emit identical items (compressed bytes), the
    equivalence to use instead."""
    chunks = list(chunks)
    sink = twice(rx.from_(chunks).pipe(*ops), len(chunks), same=same)
    if len(chunks) <= 3 and sink.error is None:
        # two subscribers of the same observable at the same time (a hot source): each gets what a lone subscriber gets
        from rx.subject import Subject
        src = Subject()
        obs = src.pipe(*ops)
        a, b = RawSink(), RawSink()
        a.subscribe_to(obs)
        b.subscribe_to(obs)
        for c in chunks:
            src.on_next(c)
        src.on_completed()
        for name, s in (('first', a), ('second', b)):
            if (not same(sink.items, s.items) if same else repr(s.items) != repr(sink.items)) or s.completed != sink.completed or s.error is not None:
                sink.error = SecondSubscriptionDiffers('two overlapping subscriptions: the %s one got %r completed=%r error=%r; a lone subscriber gets %r' % (
                    name, s.items[:6], s.completed, s.error, sink.items[:6]))
                break
    return sink


def with_empty_chunks(chunks, empty, mode):
    """mode 0: as is; 1: an empty chunk before, between and after every chunk."""
    if mode == 0:
        return list(chunks)
    out = [empty]
    for c in chunks:
        out.append(c)
        out.append(empty)
    return out


def chunkings(data, full_limit=13, max_cuts=2):
    """Every chunking for short data, otherwise every chunking with at most max_cuts cuts."""
    from .spaces import cut_sets, chunk
    n = len(data)
    if n == 0:
        yield ()
        return
    for cuts in cut_sets(n, None if n <= full_limit else max_cuts):
        yield cuts


class Device(object):
    """In-memory file object: read(size) answers follow a schedule of short reads; writes are logged."""

    def __init__(self, data=b'', schedule=None):
        self.data = data
        self.pos = 0
        self.schedule = list(schedule or [])
        self.reads = 0
        self.written = []
        self.closed = 0
        self.text = isinstance(data, str)

    def read(self, size=-1):
        self.reads += 1
        if size is None or size < 0:
            out = self.data[self.pos:]
            self.pos = len(self.data)
            return out
        n = size
        if self.schedule:
            n = min(size, self.schedule.pop(0))
        out = self.data[self.pos:self.pos + n]
        self.pos += len(out)
        return out

    def write(self, b):
        self.written.append(b)
        return len(b)

    # the rest of the file-object protocol, so that an implementation may read or write differently
    def readable(self):
        return True

    def writable(self):
        return True

    def seekable(self):
        return False

    def tell(self):
        return self.pos

    def readinto(self, buf):
        data = self.read(len(buf))
        buf[:len(data)] = data
        return len(data)

    def readline(self, size=-1):
        nl = '\n' if self.text else b'\n'
        end = self.data.find(nl, self.pos)
        end = len(self.data) if end < 0 else end + 1
        if size is not None and size >= 0:
            end = min(end, self.pos + size)
        out = self.data[self.pos:end]
        self.pos = end
        self.reads += 1
        return out

    def __iter__(self):
        while True:
            line = self.readline()
            if not line:
                return
            yield line

    def writelines(self, lines):
        for l in lines:
            self.write(l)

    def close(self):
        self.closed += 1

    def flush(self):
        pass

    def __enter__(self):
        return self

    def __exit__(self, *a):
        self.close()
        return False

    def content(self):
        if self.written and isinstance(self.written[0], str):
            return ''.join(self.written)
        return b''.join(self.written)
