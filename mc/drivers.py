"""Drivers that close the system around real rxsci pipelines, and taps that observe them."""
import copy
from array import array
from collections import deque

import rx
import rx.operators as rxops
from rx.subject import Subject

import rxsci as rs

_ATOMS = (int, float, str, bool, type(None), bytes, complex)


def snap(x):
    """Snapshot of an emitted item (several operators emit their live accumulator)."""
    t = type(x)
    if t in _ATOMS:
        return x
    if t is tuple:
        return tuple(snap(i) for i in x)
    if t is list:
        return [snap(i) for i in x]
    if t is deque:
        return ['deque'] + [snap(i) for i in x]
    if t is array:
        return ['array', x.typecode] + list(x)
    if t is dict:
        return {k: snap(v) for k, v in x.items()}
    if isinstance(x, tuple):  # namedtuple
        return tuple(snap(i) for i in x)
    if isinstance(x, BaseException):
        return ('exc', type(x).__name__, str(x))
    try:
        return copy.deepcopy(x)
    except Exception:
        return repr(x)


def exc_sig(e):
    return ('exc', type(e).__name__)


class Sink(object):
    """Final subscriber: records items, error, completion (and misuse after termination)."""

    def __init__(self):
        self.items = []
        self.error = None
        self.completed = 0
        self.after_end = 0

    def on_next(self, i):
        if self.completed or self.error is not None:
            self.after_end += 1
        self.items.append(snap(i))

    def on_error(self, e):
        if self.error is None:
            self.error = e
        else:
            self.after_end += 1

    def on_completed(self):
        self.completed += 1

    def subscribe_to(self, obs):
        return obs.subscribe(on_next=self.on_next, on_error=self.on_error, on_completed=self.on_completed)

    def status(self):
        if self.error is not None:
            return ('error', type(self.error).__name__)
        return ('completed', self.completed)


def run_plain(ops, items):
    sink = Sink()
    sink.subscribe_to(rx.from_(items).pipe(*ops))
    return sink


def run_api_mux(ops, items):
    sink = Sink()
    sink.subscribe_to(rx.from_(items).pipe(rs.state.with_memory_store(list(ops))))
    return sink


def new_store():
    return rs.state.StoreManager(store_factory=rs.state.MemoryStore)


def key_of(k):
    """JSON key -> mux key: 3 -> (3,), [3, 1] -> (3, (1,)) ; tuples pass through."""
    if isinstance(k, int):
        return (k,)
    if isinstance(k, list):
        k = tuple(k)
    if len(k) == 2 and not isinstance(k[1], (tuple, list)) and k[1] is not None:
        return (k[0], (k[1],))
    if len(k) == 2 and isinstance(k[1], list):
        return (k[0], key_of(k[1]))
    return k


def mux_events(events, store):
    """Compact events ('c',k) ('n',k,v) ('d',k) ('e',k,exc) -> rxsci mux events."""
    out = []
    for ev in events:
        t = ev[0]
        k = key_of(ev[1])
        if t == 'c':
            out.append(rs.OnCreateMux(k, store))
        elif t == 'n':
            out.append(rs.OnNextMux(k, ev[2], store))
        elif t == 'd':
            out.append(rs.OnCompletedMux(k, store))
        elif t == 'e':
            out.append(rs.OnErrorMux(k, ev[2], store))
        else:
            raise ValueError(ev)
    return out


def compact(ev):
    """rxsci mux event -> compact tuple (items snapshotted)."""
    t = type(ev)
    if t is rs.OnNextMux:
        return ('n', ev.key, snap(ev.item))
    if t is rs.OnCreateMux:
        return ('c', ev.key)
    if t is rs.OnCompletedMux:
        return ('d', ev.key)
    if t is rs.OnErrorMux:
        return ('e', ev.key, exc_sig(ev.error))
    return ('?', repr(ev))


class MuxSink(Sink):
    def on_next(self, i):
        if self.completed or self.error is not None:
            self.after_end += 1
        self.items.append(compact(i))


def run_raw_mux(ops, events, store=None, sink=None):
    """Hand-built mux event list through cast_as_mux_observable + with_store."""
    store = store or new_store()
    sink = sink or MuxSink()
    src = rx.from_(mux_events(events, store))
    sink.subscribe_to(src.pipe(rs.cast_as_mux_observable(), rs.state.with_store(store, list(ops))))
    sink.store = store
    return sink


class RawStepper(object):
    """Raw-mux driver fed one event at a time; outputs per step."""

    def __init__(self, ops, store=None):
        self.store = store or new_store()
        self.sink = MuxSink()
        self.subject = Subject()
        self.sink.subscribe_to(self.subject.pipe(
            rs.cast_as_mux_observable(), rs.state.with_store(self.store, list(ops))))

    def push(self, ev):
        n = len(self.sink.items)
        self.subject.on_next(mux_events([ev], self.store)[0])
        return self.sink.items[n:]

    def complete(self):
        n = len(self.sink.items)
        self.subject.on_completed()
        return self.sink.items[n:]


class ApiStepper(object):
    """Subject -> with_memory_store(ops) (or plain pipe); outputs per source item."""

    def __init__(self, ops, mux=True):
        self.sink = Sink()
        self.subject = Subject()
        if mux:
            self.store = new_store()
            obs = self.subject.pipe(rs.state.with_store(self.store, list(ops)))
        else:
            self.store = None
            obs = self.subject.pipe(*ops)
        self.sink.subscribe_to(obs)

    def push(self, item):
        n = len(self.sink.items)
        self.subject.on_next(item)
        return self.sink.items[n:]

    def complete(self):
        n = len(self.sink.items)
        self.subject.on_completed()
        return self.sink.items[n:]


def tap(log, tag=None, states=None):
    """Pass-through mux operator recording every event (ProbeStateTopology excluded).
    With `states` (a set) it also hashes a canonical snapshot of the store at every event."""
    def _tap(source):
        def on_subscribe(observer, scheduler):
            def on_next(i):
                if type(i) is not rs.state.ProbeStateTopology:
                    ev = compact(i)
                    log.append(ev if tag is None else (tag,) + ev)
                    if states is not None and i.store is not None:
                        states.add(hash(store_snapshot(i.store)) & 0x7fffffffffffffff)
                observer.on_next(i)

            def on_completed():
                log.append(('end',) if tag is None else (tag, 'end'))
                observer.on_completed()

            def on_error(e):
                log.append(('err', type(e).__name__) if tag is None else (tag, 'err', type(e).__name__))
                observer.on_error(e)

            return source.subscribe(on_next=on_next, on_completed=on_completed, on_error=on_error,
                                    scheduler=scheduler)
        return rs.MuxObservable(on_subscribe)
    return _tap


def _obj_snapshot(o):
    """Every data field of an object, generically (survives renamed / added fields)."""
    try:
        d = vars(o)
    except TypeError:
        return repr(o)
    out = []
    for k in sorted(d):
        v = d[k]
        if callable(v):
            continue
        if isinstance(v, array):
            v = list(v)
        out.append((k, repr(v)))
    return out


def store_snapshot(store):
    """Canonical snapshot of every field of every state of a StoreManager (used only to COUNT distinct
    implementation states; never part of an oracle, so it must not fail on a refactored store)."""
    try:
        out = []
        for st in getattr(store, 'states', None) or []:
            for s in getattr(st, 'states', None) or []:
                out.append(_obj_snapshot(s))
        return repr(out)
    except Exception:
        return 'snapshot-unavailable'


def lifetimes(log):
    """Split a tap log into key lifetimes: list of (key, [items], closed) in creation order.

    Returns (lifetimes, problems). problems lists protocol breaks seen by this tap."""
    live = {}
    out = []
    problems = []
    for ev in log:
        t = ev[0]
        if t == 'c':
            if ev[1] in live:
                problems.append(('create-live', ev[1]))
            rec = [ev[1], [], False]
            live[ev[1]] = rec
            out.append(rec)
        elif t == 'n':
            if ev[1] not in live:
                problems.append(('item-not-live', ev[1]))
            else:
                live[ev[1]][1].append(ev[2])
        elif t == 'e':
            if ev[1] not in live:
                problems.append(('error-not-live', ev[1]))
            else:
                live[ev[1]][1].append(ev[2])
        elif t == 'd':
            if ev[1] not in live:
                problems.append(('complete-not-live', ev[1]))
            else:
                live.pop(ev[1])[2] = True
        elif t == 'end':
            if live:
                problems.append(('end-with-live', sorted(live, key=repr)))
    return out, problems
