"""Operator registry: serialisable pipeline specs -> real rxsci operators and -> reference model.

A pipeline spec is a JSON list of operator specs; an operator spec is a JSON list
[name, arg, ...] whose arguments are ints / None / names of registered user functions /
nested pipeline specs.  Pipelines are always rebuilt from their spec for every execution
(group_by / roll / split / time_split create their outer Subject at construction).
"""
import math
from array import array

import rx
import rxsci as rs

from . import refmodel as M
from .drivers import tap

# ----------------------------------------------------------------------------- user functions
# total, pure, well typed; key functions return a fresh object on every call.


def _big(x):
    return 10 ** 20 + (x % 2)


def _strkey(x):
    return ''.join(['k', str(x % 2)])


def _append(acc, i):
    acc.append(i)
    return acc


def _append_nested(acc, i):
    acc[0].append(i)
    return (acc[0], acc[1] + 1)


def _dictcount(acc, i):
    acc[i] = acc.get(i, 0) + 1
    return acc


FUNCS = {
    # mappers
    'inc': lambda x: x + 1,
    'dbl': lambda x: x * 2,
    'neg': lambda x: -x,
    'half': lambda x: x / 2,
    'tofloat': lambda x: float(x),
    'tenth': lambda x: x / 10 + 0.1,          # floats that single precision cannot hold
    'dup': lambda x: [x, x],
    'dup0': lambda x: [x] * (x % 3),          # 0, 1 or 2 copies
    'pairup': lambda x: (x, x + 1),
    'none_if_odd': lambda x: None if x % 2 else x,
    'first_of': lambda t: t[0],
    'tsum': lambda a, b: a + b,               # starmap
    'tfirst': lambda a, b: a,
    'mod10': lambda x: x % 10,
    'len': lambda x: len(x),
    'listsum': lambda x: sum(x),
    # predicates (real bools)
    'even': lambda x: x % 2 == 0,
    'odd': lambda x: x % 2 == 1,
    'pos': lambda x: x > 0,
    'lt2': lambda x: x < 2,
    'true': lambda x: True,
    'false': lambda x: False,
    'mod10_lt2': lambda x: x % 10 < 2,
    'mod10_even': lambda x: x % 10 % 2 == 0,
    'notnone': lambda x: x is not None,
    # truthy non-bool predicate (C01 sub-family)
    'truthy_mod2': lambda x: x % 2,
    # pair predicates (assert_1)
    'le': lambda a, b: a <= b,
    'anypair': lambda a, b: True,
    # key functions
    'mod2': lambda x: x % 2,
    'mod3': lambda x: x % 3,
    'mod150': lambda x: x % 150,
    'div10': lambda x: x // 10,
    'div100': lambda x: x // 100,
    'div10_hash': lambda x: [-1, -2, 5, 5 + (2 ** 61 - 1)][x // 10 % 4],     # distinct keys, pairwise equal hashes
    'big_mod2': _big,
    'tup_mod2': lambda x: (x % 2, 'a'),
    'str_mod2': _strkey,
    'float_mod2': lambda x: float(x % 2),
    'ident': lambda x: x,
    'mod10_div2': lambda x: (x % 10) // 2,
    'gt_mod10_0': lambda x: x % 10 > 0,
    # accumulators
    'add': lambda a, x: a + x,
    'addf': lambda a, x: a + float(x),
    'maxacc': lambda a, x: x if a is None or x > a else a,
    'append': _append,
    'append_nested': _append_nested,
    'dictcount': _dictcount,
    'sumcount': lambda a, x: (a[0] + x, a[1] + 1),
    'keeplast': lambda a, x: x,
    'mulsign': lambda a, x: a * float((x % 10) - 1),     # running product over {-1, 0, 1}: reaches 0.0 and then -0.0
    # terminators
    't_len': lambda a: len(a),
    'nullable': lambda a, x: None if x % 10 == 2 else ((a[0] if a is not None else 0) + x,),   # the fold legitimately passes through None
    't_neg': lambda a: -a,
    't_wrap': lambda a: ('end', a if not isinstance(a, list) else list(a)),
}

SEEDS = {
    '0': lambda: 0,
    '0.0': lambda: 0.0,
    'none': lambda: None,
    'emptylist': lambda: [],
    'nested': lambda: ([], 0),
    'emptydict': lambda: {},
    'pair00': lambda: (0, 0),
    '1.0': lambda: 1.0,
    'tup100': lambda: (100,),
}


def seed_arg(name):
    """'emptylist' -> the value (deep-copied by scan); 'f:emptylist' -> a factory."""
    if name.startswith('f:'):
        return SEEDS[name[2:]]
    return SEEDS[name]()


def seed_factory(name):
    return SEEDS[name[2:] if name.startswith('f:') else name]


class Ctx(object):
    """Per-execution build context: tap logs, do_action logs."""

    def __init__(self, track_states=False):
        self.logs = {}
        self.states = set() if track_states else None

    def log(self, name):
        return self.logs.setdefault(name, [])


# ----------------------------------------------------------------------------- registry

OPS = {}


def op(name, build, model, **meta):
    OPS[name] = dict(build=build, model=model, **meta)


def build(pipeline, ctx=None):
    ctx = ctx or Ctx()
    return [OPS[o[0]]['build'](ctx, *o[1:]) for o in pipeline]


def model(pipeline):
    return M.Pipe([OPS[o[0]]['model'](*o[1:]) for o in pipeline])


def F(name):
    return FUNCS[name] if name is not None else None


def sub(ctx, p):
    return build(p, ctx)


def _alt(*args):
    """Deterministic choice between two spellings of the same call (positional / keyword / documented default left out),
    taken from the arguments themselves so that a replay makes the same choice."""
    import zlib
    return zlib.crc32(repr(args).encode()) & 1


# per-item operators
op('map', lambda c, f: rs.ops.map(F(f)), lambda f: M.Map(F(f)))
op('starmap', lambda c, f: rs.ops.starmap(F(f)), lambda f: M.Map(lambda t, g=F(f): g(*t)))
op('filter', lambda c, f: rs.ops.filter(F(f)), lambda f: M.Filter(F(f)))
op('flat_map', lambda c: rs.ops.flat_map(), lambda: M.FlatMap())
op('identity', lambda c: rs.ops.identity(), lambda: M.Map(lambda x: x))
op('clip', lambda c, lo, hi: rs.data.clip(lo, hi),
   lambda lo, hi: M.Map(lambda x: x if (lo is None or x >= lo) and (hi is None or x <= hi) else (lo if lo is not None and x < lo else hi)))
op('fill_none', lambda c, v: rs.data.fill_none(v), lambda v: M.Map(lambda x: v if x is None else x))
op('do_action', lambda c, name: rs.ops.do_action(on_next=lambda i, l=c.log(name): l.append(i)),
   lambda name: M.Map(lambda x: x))
op('assert', lambda c, f: rs.ops.assert_(F(f)), lambda f: M.Map(lambda x: x))
op('assert_1', lambda c, f: rs.ops.assert_1(F(f)), lambda f: M.Map(lambda x: x))
op('progress', lambda c, n: rs.ops.progress('p', n, measure_throughput=False), lambda n: M.Map(lambda x: x))
op('progress_t', lambda c, n: rs.ops.progress('p', n, measure_throughput=True), lambda n: M.Map(lambda x: x))
import collections as _collections
_Pt = _collections.namedtuple('Pt', ['a', 'b'])
FUNCS['to_pt'] = lambda x: _Pt(None if x % 2 else x, x)
FUNCS['pt_sum'] = lambda p: (p.a, p.b)
op('tap', lambda c, name: tap(c.log(name), states=c.states), lambda name: M.Map(lambda x: x))

# folds
op('scan', lambda c, f, seed, reduce=False, term=None: (rs.ops.scan(F(f), seed_arg(seed), reduce, F(term)) if _alt(f, seed, reduce, term) else
                                                     rs.ops.scan(accumulator=F(f), seed=seed_arg(seed), reduce=reduce, terminator=F(term))),
   lambda f, seed, reduce=False, term=None: M.Scan(F(f), seed_factory(seed), reduce, F(term)))
op('count', lambda c, reduce=False: (rs.ops.count() if not reduce else rs.ops.count(True)) if _alt('count', reduce) else rs.ops.count(reduce=reduce),
   lambda reduce=False: M.Scan(lambda a, x: a + 1, lambda: 0, reduce, None))
op('sum', lambda c, reduce=False: rs.math.sum(reduce=reduce),
   lambda reduce=False: M.Scan(lambda a, x: a + x, lambda: 0.0, reduce, None))
op('max', lambda c, reduce=False: rs.math.max(reduce=reduce),
   lambda reduce=False: M.Scan(lambda a, x: x if a is None or x > a else a, lambda: None, reduce, None))
op('min', lambda c, reduce=False: rs.math.min(reduce=reduce),
   lambda reduce=False: M.Scan(lambda a, x: x if a is None or x < a else a, lambda: None, reduce, None))
op('mean', lambda c, reduce=False: rs.math.mean(reduce=reduce), lambda reduce=False: M.Mean(reduce))
op('variance', lambda c, reduce=False: rs.math.variance(reduce=reduce), None)
op('stddev', lambda c, reduce=False: rs.math.stddev(reduce=reduce), None)
op('fvariance', lambda c, reduce=False: rs.math.formal.variance(reduce=reduce), None)
op('fstddev', lambda c, reduce=False: rs.math.formal.stddev(reduce=reduce), None)
op('to_list', lambda c: rs.data.to_list(), lambda: M.ToList())
op('to_array', lambda c, tc='q': rs.data.to_array(tc), lambda tc='q': M.ToList(lambda l, tc=tc: ['array', tc] + l))

# sequence operators
op('first', lambda c: rs.ops.first(), lambda: M.Take(1))
op('last', lambda c: rs.ops.last(), lambda: M.Last())
op('take', lambda c, n: rs.ops.take(count=n) if _alt('take', n) else rs.ops.take(n), lambda n: M.Take(n))
op('distinct', lambda c, f=None: rs.ops.distinct(F(f)), lambda f=None: M.Distinct(F(f)))
op('duc', lambda c, f=None: rs.ops.distinct_until_changed(F(f)), lambda f=None: M.DistinctUntilChanged(F(f)))
op('lag', lambda c, n: (rs.data.lag() if n == 1 else rs.data.lag(size=n)) if _alt('lag', n) else rs.data.lag(n), lambda n: M.Lag(n))
op('pad_start', lambda c, n, v=None: (rs.data.pad_start(size=n, value=v) if v is not None else rs.data.pad_start(n)) if _alt('ps', n, v) else rs.data.pad_start(n, v),
   lambda n, v=None: M.PadStart(n, v))
op('pad_end', lambda c, n, v=None: (rs.data.pad_end(size=n, value=v) if v is not None else rs.data.pad_end(n)) if _alt('pe', n, v) else rs.data.pad_end(n, v),
   lambda n, v=None: M.PadEnd(n, v))
op('start_with', lambda c, p: rs.ops.start_with(list(p)), lambda p: M.StartWith(list(p)))
# the padding given as another iterable than a list (the items are what iterating it yields)
PADDINGS = {'tuple': lambda: (7, 8), 'range': lambda: range(2), 'str': lambda: 'ab', 'deque': lambda: __import__('collections').deque([7, 8])}
op('start_with_as', lambda c, kind: rs.ops.start_with(PADDINGS[kind]()), lambda kind: M.StartWith(list(PADDINGS[kind]())))
op('batch', lambda c, n: rs.data.batch(batch_size=n) if _alt('batch', n) else rs.data.batch(n), lambda n: M.Batch(n))
op('sort', lambda c, f=None, rev=False: rs.data.sort(key=F(f) or (lambda i: i), reverse=rev),
   lambda f=None, rev=False: M.Sort(F(f), rev))

# higher order
op('group_by', lambda c, f, p: rs.ops.group_by(key_mapper=F(f), pipeline=sub(c, p)) if _alt('g', f, p) else rs.ops.group_by(F(f), sub(c, p)),
   lambda f, p: M.GroupBy(F(f), lambda: model(p)))
op('roll', lambda c, w, s, p: rs.data.roll(window=w, stride=s, pipeline=sub(c, p)) if _alt('r', w, s, p) else rs.data.roll(w, s, sub(c, p)),
   lambda w, s, p: M.Roll(w, s, lambda: model(p)))
op('split', lambda c, f, p: rs.data.split(predicate=F(f), pipeline=sub(c, p)) if _alt('s', f, p) else rs.data.split(F(f), sub(c, p)),
   lambda f, p: M.Split(F(f), lambda: model(p)))


def _ts_build(c, active, inactive, closing, include, p, tm='ident'):
    return rs.data.time_split(
        time_mapper=F(tm), active_timeout=active, inactive_timeout=inactive,
        closing_mapper=F(closing), include_closing_item=include, pipeline=sub(c, p))


op('time_split', _ts_build,
   lambda active, inactive, closing, include, p, tm='ident':
   M.TimeSplit(F(tm), active, inactive, F(closing), include, lambda: model(p)))
op('tee_map', lambda c, join, *branches: (rs.ops.tee_map(*[sub(c, b) for b in branches]) if join == 'zip' and _alt('t', branches) else
                                         rs.ops.tee_map(*[sub(c, b) for b in branches], join=join)),
   lambda join, *branches: M.TeeMap(join, [(lambda b=b: model(b)) for b in branches]))

# error handlers (mux only; no list model)
op('err_ignore', lambda c: rs.error.ignore(), None)
op('err_map', lambda c, f: rs.error.map(F(f)), None)


def has_model(pipeline):
    for o in pipeline:
        if OPS[o[0]]['model'] is None:
            return False
        for a in o[1:]:
            if isinstance(a, list) and a and isinstance(a[0], list) and not has_model(a):
                return False
    return True


def to_source(pipeline, indent=1):
    """Python source text rebuilding the pipeline with rx/rxsci only (for replay files)."""
    names = {
        'map': 'rs.ops.map', 'starmap': 'rs.ops.starmap', 'filter': 'rs.ops.filter', 'flat_map': 'rs.ops.flat_map',
        'identity': 'rs.ops.identity', 'clip': 'rs.data.clip', 'fill_none': 'rs.data.fill_none',
        'assert': 'rs.ops.assert_', 'assert_1': 'rs.ops.assert_1', 'scan': 'rs.ops.scan', 'count': 'rs.ops.count',
        'sum': 'rs.math.sum', 'max': 'rs.math.max', 'min': 'rs.math.min', 'mean': 'rs.math.mean',
        'variance': 'rs.math.variance', 'stddev': 'rs.math.stddev', 'fvariance': 'rs.math.formal.variance',
        'fstddev': 'rs.math.formal.stddev', 'to_list': 'rs.data.to_list', 'to_array': 'rs.data.to_array',
        'first': 'rs.ops.first', 'last': 'rs.ops.last', 'take': 'rs.ops.take', 'distinct': 'rs.ops.distinct',
        'duc': 'rs.ops.distinct_until_changed', 'lag': 'rs.data.lag', 'pad_start': 'rs.data.pad_start',
        'pad_end': 'rs.data.pad_end', 'start_with': 'rs.ops.start_with', 'batch': 'rs.data.batch',
        'sort': 'rs.data.sort', 'group_by': 'rs.ops.group_by', 'roll': 'rs.data.roll', 'split': 'rs.data.split',
        'time_split': 'rs.data.time_split', 'tee_map': 'rs.ops.tee_map', 'err_ignore': 'rs.error.ignore',
        'err_map': 'rs.error.map',
    }
    pad = '    ' * indent
    lines = []
    for o in pipeline:
        args = []
        for a in o[1:]:
            if isinstance(a, list) and (not a or isinstance(a[0], list)):
                args.append('[\n%s%s]' % (to_source(a, indent + 1), pad))
            elif isinstance(a, str) and a in FUNCS:
                args.append('F[%r]' % a)
            else:
                args.append(repr(a))
        lines.append('%s%s(%s),  # spec %r\n' % (pad, names.get(o[0], o[0]), ', '.join(args), o[0]))
    return ''.join(lines)


# ----------------------------------------------------------------------------- keys / predicates whose
# values are equal (==) but never identical objects

_NAN = float('nan')


def _k_mixed(x):
    c = x % 10
    if c == 0:
        return 10 ** 20 + 0 * x          # big int, fresh object
    if c == 1:
        return tuple([1, 'a'])           # fresh tuple
    if c == 2:
        return ''.join(['k', str(2)])    # run-time string
    if c == 3:
        return 1
    if c == 4:
        return float(1)                  # == 1 == True: same group as class 3
    if c == 5:
        return None
    if c == 6:
        return -1                        # hash(-1) == hash(-2): distinct keys, same hash
    if c == 7:
        return -2
    if c == 8:
        return 5
    if c == 9:
        return 5 + (2 ** 61 - 1)         # == 5 modulo the hash modulus
    return c


def _p_mixed(x):
    c = x % 10
    if c == 0:
        return 10 ** 20 + 0 * x
    if c == 1:
        return float(10 ** 20)           # == class 0 value
    if c == 2:
        return tuple(['t'])
    return c


FUNCS.update({
    'k_mixed': _k_mixed,
    'k_falsy': lambda x: [0, '', (), None, 'x'][x % 10 % 5],          # four distinct falsy key values
    'k_bool': lambda x: [True, 1, 1.0, False, 0.0][x % 10 % 5],          # True == 1 == 1.0 and False == 0.0: two groups, five spellings
    'p_mixed': _p_mixed,
    'p_nan': lambda x: [float('nan'), _NAN, 1.0][x % 10 % 3],      # a value that differs (!=) from itself: a fresh NaN, one shared NaN object, 1.0
    'p_big': lambda x: 10 ** 20 + (x % 10),
    'p_hash': lambda x: [-1, -2, 5 + (2 ** 61 - 1), 5][x % 10 % 4],            # distinct values, pairwise equal hashes
    'p_prefix': lambda x: [('a',), ('a', 'b'), ()][x % 10 % 3],                # tuples in prefix relation
    'p_type': lambda x: type(x).__name__,
    'p_falsy': lambda x: [None, 0, ''][x % 10] if x % 10 < 3 else x % 10,      # three distinct falsy predicate values
    'p_str': lambda x: ''.join(['p', str(x % 10)]),
    'mod10': lambda x: x % 10,
    'ts_div10': lambda x: x // 10,
    'mod100': lambda x: x % 100,
    'closing_mod10': lambda x: x % 10 == 1,
    'ts_100': lambda x: (x % 100) // 10 if False else (x // 10) % 100,
})
