"""Regenerate /verif/MANIFEST.json from the check modules that exist (python -m mc.manifest)."""
import importlib
import json
import os

from . import VERIF, import_rxsci

ALL = ['C%02d' % i for i in range(1, 21)]

BASELINE_OFF = ('cd /repo && env -u RXSCI_VERIF /venv/bin/python -m pytest -ra -q -p no:cacheprovider --timeout=900 '
                '--continue-on-collection-errors')


def main():
    import_rxsci()
    checks = []
    na = []
    for pid in ALL:
        path = os.path.join(VERIF, 'mc', 'checks', pid.lower() + '.py')
        if not os.path.exists(path):
            na.append({'property_id': pid, 'reason': 'check not built yet (see DESIGN.md section 4 for its design)'})
            continue
        m = importlib.import_module('mc.checks.' + pid.lower())
        if getattr(m, 'NOT_CLAIMED', None):
            na.append({'property_id': pid, 'reason': m.NOT_CLAIMED})
            continue
        checks.append({
            'property_id': pid,
            'quick_cmd': 'PYTHONHASHSEED=0 /venv/bin/python -m mc %s --tier quick' % pid,
            'thorough_cmd': 'PYTHONHASHSEED=0 /venv/bin/python -m mc %s --tier thorough' % pid,
            'evidence_file': '/verif/evidence/%s.json' % pid,
            'replay_cmd_template': 'PYTHONHASHSEED=0 /venv/bin/python -m mc.replay {path}',
            'engine': getattr(m, 'ENGINE', 'hx'),
            'level_claimed': {
                'category': m.LEVEL,
                'text': m.LEVEL_TEXT,
                'design_ref': 'DESIGN.md section 4, ' + pid,
            },
            'level_note': m.LEVEL_NOTE,
            'technique': m.TECHNIQUE,
        })
    man = {
        'version': 1,
        'setup_cmd': 'cd /verif && /venv/bin/python -c "import mc; mc.import_rxsci(); import mc.engine, mc.opspecs"',
        'hooks': {
            'guard': 'RXSCI_VERIF',
            'enable': 'no source hooks are needed: checks import rxsci from /repo and observe it through harness-side '
                      'taps, drivers and a patched rx.pipe in the checker process only',
            'baseline_off_cmd': BASELINE_OFF,
            'source_commits': [],
            'add_only': True,
        },
        'engines': [
            {'name': 'hx', 'path': '/verif/mc/engine.py',
             'serves_properties': [c['property_id'] for c in checks if c['engine'] == 'hx'],
             'kind_free_text': 'stateless bounded-exhaustive explorer: re-executes the real rxsci pipeline on every '
                               'history / schedule / program / configuration of a finite space, oracle = reference '
                               'model, differential run or protocol automaton on every execution'},
            {'name': 'bfs', 'path': '/verif/mc/store_bfs.py',
             'serves_properties': [c['property_id'] for c in checks if c['engine'] == 'bfs'],
             'kind_free_text': 'explicit-state breadth-first search with state hashing over the real MemoryStore / '
                               'StoreManager objects against a dictionary model'},
        ],
        'checks': checks,
        'not_applicable': na,
        'notes': 'All checks rebuild nothing: they import rxsci from /repo working tree at run time. '
                 'Known findings: /verif/known_findings.json. Seeded changes: /verif/seeded/.',
    }
    with open(os.path.join(VERIF, 'MANIFEST.json'), 'w') as f:
        json.dump(man, f, indent=1)
    print('MANIFEST.json: %d checks, %d not_applicable' % (len(checks), len(na)))


if __name__ == '__main__':
    main()
