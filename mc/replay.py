"""python -m mc.replay <replay.json>: re-run one recorded case without the explorer.

Exit 1 and a VIOLATION line when the recorded violation still reproduces, exit 0 otherwise."""
import importlib
import json
import os
import sys


def main(argv=None):
    argv = argv if argv is not None else sys.argv[1:]
    if os.environ.get('PYTHONHASHSEED') != '0':
        env = dict(os.environ, PYTHONHASHSEED='0')
        os.execve(sys.executable, [sys.executable, '-m', 'mc.replay'] + argv, env)
    from . import import_rxsci
    import_rxsci()
    from . import engine
    rec = json.load(open(argv[0]))
    check = importlib.import_module('mc.checks.%s' % rec['property'].lower())
    if rec.get('history'):
        # the violation needs the executions that preceded it in its unit (state kept across executions by the code under test)
        n = engine.replay_with_history(check, rec['history']['units'], rec['case'], rec['signature'])
        if n is None:
            print('replay %s: property %s holds on this case, also after the executions that preceded it' % (argv[0], rec['property']))
            return 0
        print('VIOLATION property=%s replay=%s signature=%s (after the %d executions that preceded it in its worker process)' % (
            rec['property'], argv[0], rec['signature'], n - 1))
        return 1
    acc = engine.Acc()
    saved = sys.stdout
    sys.stdout = open(os.devnull, 'w')
    try:
        try:
            vs = check.run_case(rec['case'], acc)
        except Exception:
            import traceback
            vs = [{'signature': '%s|unexpected-exception|%s' % (check.ID, engine._exc_site()),
                   'detail': {'traceback': traceback.format_exc()}}]
    finally:
        sys.stdout = saved
    if not vs:
        print('replay %s: property %s holds on this case' % (argv[0], rec['property']))
        return 0
    for v in vs:
        print('VIOLATION property=%s replay=%s signature=%s' % (rec['property'], argv[0], v['signature']))
        print(json.dumps(engine.jsonable(v.get('detail')), indent=1)[:4000])
    return 1


if __name__ == '__main__':
    sys.exit(main())
