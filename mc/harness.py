"""Shared helpers of the checks: run a spec on the real code, run it on the model, diff."""
from collections import Counter

import rx
import rxsci as rs

from . import opspecs
from .drivers import Sink, new_store, ApiStepper


def run_api(spec, items, track_states=False, twice=False):
    """rx.from_(items).pipe(with_store(store, build(spec))) -> (sink, ctx, store).
    twice=True: the same observable is subscribed a second time afterwards (logs of the context are restored to the first
    run); `second_problem(sink)` then tells whether the second subscription behaved differently."""
    ctx = opspecs.Ctx(track_states)
    store = new_store()
    sink = Sink()
    obs = rx.from_(items).pipe(rs.state.with_store(store, opspecs.build(spec, ctx)))
    sink.subscribe_to(obs)
    if twice:
        resubscribe(obs, sink, ctx)
    return sink, ctx, store


def resubscribe(obs, sink, ctx=None):
    marks = {k: len(v) for k, v in ctx.logs.items()} if ctx is not None else {}
    states = set(ctx.states) if ctx is not None and ctx.states is not None else None
    again = Sink()
    again.subscribe_to(obs)
    if ctx is not None:
        for k, v in ctx.logs.items():
            del v[marks.get(k, 0):]
        if states is not None:
            ctx.states = states
    sink.second = again
    return again


def second_problem(sink):
    """None, or what differs between the first and the second subscription of the same observable."""
    again = getattr(sink, 'second', None)
    if again is None or sink.error is not None or same_outcome(sink, again):
        return None
    return {'first': [sink.items, sink.status()], 'second': [again.items, again.status()]}


def run_sources(specs, items, order):
    """The `sources=` entry point: one store shared by several multiplexed sources, each with its own pipeline.
    specs[k] runs on Subject k; `order` lists which subject delivers its next item; completion in reverse order.
    Returns the sinks (one per source)."""
    from rx.subject import Subject
    subjects = [Subject() for _ in specs]
    store = new_store()
    muxed = rs.state.with_store(store, sources=[s.pipe(rs.ops.mux_observable()) for s in subjects])
    sinks = [Sink() for _ in specs]
    for k in range(len(specs)):
        sinks[k].subscribe_to(muxed[k].pipe(*(opspecs.build(specs[k]) + [rs.ops.demux_observable()])))
    pos = [0] * len(specs)
    for k in order:
        subjects[k].on_next(items[k][pos[k]])
        pos[k] += 1
    for k in reversed(range(len(specs))):
        subjects[k].on_completed()
    return sinks


def sources_problems(specs, items, order):
    """[(source number, kind of difference, expected, observed, error)] against the reference interpreter per source."""
    sinks = run_sources(specs, items, order)
    out = []
    for k, sink in enumerate(sinks):
        exp = model_all(specs[k], items[k])
        if sink.error is not None or sink.completed != 1 or sink.items != exp:
            out.append((k + 1, str(diff_kind(exp, sink.items)), exp, sink.items, repr(sink.error)))
    return out


def shared_list_problem(make_a, make_b, items):
    """The SAME pipeline list object handed to two operators (built one after the other): the second one behaves as with a
    list of its own, and the caller's list is left as it was.  make_x(list_of_operators) -> operator."""
    fresh = lambda: [rs.ops.map(lambda x: x), rs.data.to_list()]
    shared = fresh()
    before = list(shared)
    op_a = make_a(shared)
    op_b = make_b(shared)
    ref_b = make_b(fresh())
    res = []
    for op in (op_a, op_b, ref_b):
        sink = Sink()
        sink.subscribe_to(rx.from_(list(items)).pipe(rs.state.with_memory_store([op])))
        res.append(sink)
    if len(shared) != len(before) or any(x is not y for x, y in zip(shared, before)):
        return {'problem': 'the list passed as pipeline was modified', 'length_before': len(before), 'length_after': len(shared)}
    if res[1].error is not None or repr(res[1].items) != repr(res[2].items) or res[1].completed != res[2].completed:
        return {'problem': 'the second operator given the same list behaves differently', 'with_shared_list': res[1].items,
                'with_own_list': res[2].items, 'error': repr(res[1].error)}
    return None


def run_twice(spec, items, mux=True):
    """ONE observable (one pipeline object, one store) subscribed twice in a row: (first sink, second sink)."""
    ctx = opspecs.Ctx()
    ops = opspecs.build(spec, ctx)
    obs = rx.from_(items).pipe(rs.state.with_store(new_store(), ops)) if mux else rx.from_(items).pipe(*ops)
    a = Sink()
    a.subscribe_to(obs)
    b = Sink()
    b.subscribe_to(obs)
    return a, b


def same_outcome(a, b):
    return repr(a.items) == repr(b.items) and a.completed == b.completed and type(a.error) is type(b.error)


def run_plain(spec, items):
    ctx = opspecs.Ctx()
    sink = Sink()
    sink.subscribe_to(rx.from_(items).pipe(*opspecs.build(spec, ctx)))
    return sink, ctx


def run_steps(spec, items, mux=True):
    """Subject-driven: ([outputs at step t], outputs at completion, sink)."""
    ctx = opspecs.Ctx()
    st = ApiStepper(opspecs.build(spec, ctx), mux=mux)
    st.sink.before_first_input = list(st.sink.items)      # anything emitted at subscription time
    steps = [st.push(x) for x in items]
    end = st.complete()
    return steps, end, st.sink


def run_steps_cold(spec, items, mux=True):
    """The same observation with a COLD source (rx.from_, which delivers all items from one scheduled action of the
    current-thread trampoline): a do_action in front of the pipeline marks how many outputs had reached the subscriber
    when each item - and the completion - was handed to the pipeline.  Work that the pipeline defers to the scheduler
    shows up as outputs that arrive after later inputs."""
    import rx.operators as rxops
    ctx = opspecs.Ctx()
    ops_ = opspecs.build(spec, ctx)
    sink = Sink()
    marks = []
    src = rx.from_(list(items)).pipe(rxops.do_action(on_next=lambda x: marks.append(len(sink.items)),
                                                     on_completed=lambda: marks.append(len(sink.items))))
    obs = src.pipe(rs.state.with_store(new_store(), ops_)) if mux else src.pipe(*ops_)
    sink.subscribe_to(obs)
    n = len(items)
    marks = marks + [len(sink.items)] * (n + 1 - len(marks))        # stream ended early (take/first on a plain observable, error)
    sink.before_first_input = list(sink.items[:marks[0]])
    steps = [sink.items[marks[i]:marks[i + 1]] for i in range(n)]
    end = sink.items[marks[n]:]
    return steps, end, sink


def model_steps(spec, items):
    m = opspecs.model(spec)
    steps = [m.item(x) for x in items]
    return steps, m.end()


def model_all(spec, items):
    steps, end = model_steps(spec, items)
    out = []
    for s in steps:
        out.extend(s)
    out.extend(end)
    return out


def _key(x):
    return repr(x)


def diff_kind(expected, observed):
    """None when equal, else one of order / missing / extra / value."""
    if expected == observed and [_key(x) for x in expected] == [_key(x) for x in observed]:
        return None          # equal AND the same repr: 0.0 vs -0.0, 1 vs 1.0 vs True are told apart
    ce, co = Counter(map(_key, expected)), Counter(map(_key, observed))
    if ce == co:
        return 'order'
    if not (co - ce) and (ce - co):
        return 'missing'
    if not (ce - co) and (co - ce):
        return 'extra'
    return 'value'


def same_multiset(a, b):
    return Counter(map(_key, a)) == Counter(map(_key, b))


def status_problem(sink):
    if sink.error is not None:
        return 'unexpected-error:%s' % type(sink.error).__name__
    if sink.completed != 1:
        return 'completed-%d-times' % sink.completed
    if sink.after_end:
        return 'emission-after-termination'
    return None


def opnames(spec):
    """Flat list of operator names of a (nested) spec, for signatures."""
    out = []
    for o in spec:
        out.append(o[0])
        for a in o[1:]:
            if isinstance(a, list) and a and isinstance(a[0], list):
                out.extend(opnames(a))
    return out


def expected_raw(spec_or_factory, events):
    """Tail of `spec` on a raw-mux event list according to the per-lifetime reference model:
    every key lifetime is an independent instance of the model."""
    make = spec_or_factory if callable(spec_or_factory) else (lambda: opspecs.model(spec_or_factory))
    exp = []
    live = {}
    for ev in events:
        k = ev[1] if isinstance(ev[1], tuple) else (ev[1],)
        if ev[0] == 'c':
            live[k] = make()
            exp.append(('c', k))
        elif ev[0] == 'n':
            for y in live[k].item(ev[2]):
                exp.append(('n', k, y))
        elif ev[0] == 'd':
            for y in live.pop(k).end():
                exp.append(('n', k, y))
            exp.append(('d', k))
    return exp


def per_key(events_out):
    """Group tail events by key: {key: [event kinds+payload in order]} (order across keys dropped)."""
    out = {}
    for ev in events_out:
        out.setdefault(ev[1], []).append(ev)
    return out


def raw_stats(events, acc):
    lives = {}
    live = set()
    two = False
    for ev in events:
        if ev[0] == 'c':
            lives[ev[1]] = lives.get(ev[1], 0) + 1
            live.add(ev[1])
            two = two or len(live) > 1
        elif ev[0] == 'd':
            live.discard(ev[1])
    if any(v > 1 for v in lives.values()):
        acc.count('key_index_reused')
    if two:
        acc.count('two_live_keys')


def strip_taps(spec):
    out = []
    for o in spec:
        if o[0] == 'tap':
            continue
        out.append([strip_taps(a) if (isinstance(a, list) and a and isinstance(a[0], list)) else a for a in o])
    return out


def unit_test_api(spec, items, expected=None, mux=True):
    """Plain Python script replaying one case with rx / rxsci only (named user functions come from mc.opspecs.FUNCS)."""
    spec = strip_taps(spec)
    src = opspecs.to_source(spec, 2)
    head = ("import sys\nsys.path[:0] = ['/repo', '/verif']\nimport rx\nimport rxsci as rs\n"
            "from mc.opspecs import FUNCS as F      # named, pure user functions only\n\nout = []\n")
    if mux:
        body = "rx.from_(%r).pipe(\n    rs.state.with_memory_store([\n%s    ]),\n)" % (items, src)
    else:
        body = "rx.from_(%r).pipe(\n%s)" % (items, opspecs.to_source(spec, 1))
    tail = ".subscribe(on_next=out.append, on_error=lambda e: out.append(('on_error', repr(e))))\nprint(out)\n"
    if expected is not None:
        tail += "expected = %r\nassert out == expected, 'expected %%r' %% (expected,)\n" % (expected,)
    return head + body + tail


def unit_test_raw(spec, events, expected=None):
    spec = strip_taps(spec)
    src = opspecs.to_source(spec, 2)
    return ("import sys\nsys.path[:0] = ['/repo', '/verif']\nimport rx\nimport rxsci as rs\n"
            "from mc.opspecs import FUNCS as F\nfrom mc.drivers import mux_events, compact, new_store\n\n"
            "store = new_store()\nout = []\nrx.from_(mux_events(%r, store)).pipe(\n    rs.cast_as_mux_observable(),\n"
            "    rs.state.with_store(store, [\n%s    ]),\n).subscribe(on_next=lambda i: out.append(compact(i)), on_error=lambda e: out.append(('on_error', repr(e))))\n"
            "print(out)\n%s" % ([tuple(e) for e in events], src,
                                  ("expected = %r\nassert out == expected, 'expected %%r' %% (expected,)\n" % (expected,)) if expected is not None else ''))
