"""C11 - streaming promptness: results are emitted with the item that determines them."""
import itertools

from .. import opspecs, spaces, harness
from ..engine import fast_hash

ID = 'C11'
TITLE = 'Streaming promptness: results are emitted with the item that determines them'
LEVEL = 'model_checking'
RULE = ('programs = parents {none, group_by, roll x4, split, time_split(closing) x2, tee_map x3 joins x2 shapes} nested to '
        'depth 2 around leaf pipelines of depth <= 2 over {map, filter, scan, count, sum(reduce), last, to_list, batch(1|2|3), '
        'take, first, pad_end}; inputs = every sequence over {0,1,2} up to the length bound. The source is a Subject; after '
        'each pushed item the outputs that reached the final subscriber are compared with the outputs the step-wise '
        'reference interpreter produces for that item (exact order; multiset when an overlapping roll hands one item to '
        'several windows, an order no property fixes), and again at completion. Non-trivial = program with a window/group '
        'parent and an input of >= 2 items; states = distinct (program, outputs-so-far) observations per step.')
DEEP_PROBES = ('line / length-prefix un-framing chunk by chunk under every chunking (a frame leaves with the chunk that completes it); from_iterable over a generator with and without progress bar (no element taken ahead of its output); 22 dual-mode leaf pipelines (flat_map, tee_map x3, mean/min/max, ...) as plain observables and multiplexed, driven by a Subject and by a cold rx.from_ source (deferred work shows as late outputs); every third nested program on a cold source; group_by > roll over the whole 6x6 grid with three alternating keys; batch(300), roll(300,300), roll(260,130) step by step; split on equal-but-not-identical predicate values')
ASSUMPTIONS = ['zip/combine_latest over a branch that contains an overlapping roll is excluded (unspecified delivery order '
               'would become visible in tuple values)',
               'multiplexed mode; plain mode only for pipelines without take/first (which complete a plain observable early)']
LEVEL_TEXT = ('Bounded-exhaustive model checking of emission timing: every program of the nesting grammar x every short input, '
              'driven one item at a time, compared step by step with an incremental reference interpreter. A result that is '
              'buffered, emitted one step late, or emitted before its closing item shows at a specific step of a specific '
              'program, which only a step-wise exhaustive comparison exposes.')
LEVEL_NOTE = 'Trusted: mc/refmodel.py (validated against list definitions by C04-C07, C09, C10 on every case they run).'
TECHNIQUE = 'stateless bounded-exhaustive step-wise exploration of real pipelines against an incremental reference interpreter'

LEAF_OPS = [['map', 'inc'], ['filter', 'even'], ['scan', 'add', '0'], ['count'], ['sum', True], ['last'], ['to_list'],
            ['batch', 1], ['batch', 2], ['batch', 3], ['take', 2], ['first'], ['pad_end', 1, 9], ['start_with', [7]], ['pad_start', 1, 9]]

PARENTS = ['none', 'group_by', 'roll21', 'roll22', 'roll32', 'roll12', 'split', 'tsplit_inc', 'tsplit_exc',
           'tee_merge_count', 'tee_zip_count', 'tee_cl_count', 'tee_merge_last', 'tee_zip_last', 'tee_cl_last']


def wrap(parent, inner):
    if parent == 'none':
        return inner
    if parent == 'group_by':
        return [['group_by', 'mod2', inner]]
    if parent.startswith('roll'):
        return [['roll', int(parent[4]), int(parent[5]), inner]]
    if parent == 'split':
        return [['split', 'even', inner]]
    if parent == 'tsplit_inc':
        return [['time_split', None, None, 'even', True, inner, 'ident']]
    if parent == 'tsplit_exc':
        return [['time_split', None, None, 'even', False, inner, 'ident']]
    if parent.startswith('tee_'):
        _, join, other = parent.split('_')
        join = {'merge': 'merge', 'zip': 'zip', 'cl': 'combine_latest'}[join]
        return [['tee_map', join, inner, [['count']] if other == 'count' else [['last']]]]
    raise ValueError(parent)


def overlapping_roll(spec):
    for o in spec:
        if o[0] == 'roll' and o[2] < o[1]:
            return True
        for a in o[1:]:
            if isinstance(a, list) and a and isinstance(a[0], list) and overlapping_roll(a):
                return True
    return False


def excluded(spec):
    """zip / combine_latest with a branch containing an overlapping roll."""
    for o in spec:
        if o[0] == 'tee_map' and o[1] != 'merge' and any(overlapping_roll(b) for b in o[2:]):
            return True
        for a in o[1:]:
            if isinstance(a, list) and a and isinstance(a[0], list) and excluded(a):
                return True
    return False


# input type each leaf operator needs / output type it produces (items are ints)
NEEDS_INT = {'map', 'filter', 'scan', 'sum', 'pad_end', 'start_with', 'pad_start'}
MAKES_LIST = {'to_list', 'batch'}


def leaves(depth):
    out = [[o] for o in LEAF_OPS]
    if depth >= 2:
        out += [[a, b] for a in LEAF_OPS for b in LEAF_OPS if not (a[0] in MAKES_LIST and b[0] in NEEDS_INT)
                and not (a[0] == 'sum' and b[0] == 'scan')]   # float into an int-typed scan state: stated precondition
    return out


def programs(tier):
    progs = []
    if tier == 'quick':
        for p1 in PARENTS:
            for leaf in leaves(2):
                progs.append((p1, 'none', leaf))
        for p1 in PARENTS[1:]:
            for p2 in PARENTS[1:]:
                if p2.startswith('tsplit'):
                    continue
                for leaf in leaves(1):
                    progs.append((p1, p2, leaf))
    else:
        for p1 in PARENTS:
            for p2 in PARENTS:
                if (p1 == 'none' and p2 != 'none') or p2.startswith('tsplit'):
                    continue
                for leaf in leaves(2):
                    progs.append((p1, p2, leaf))
    return progs


def bounds(tier):
    return {'programs': len(programs(tier)), 'input_alphabet': [0, 1, 2], 'max_len': 4 if tier == 'quick' else 5,
            'nesting_depth': 2, 'leaf_depth': 2}


def deep_specs():
    """Deep probes: roll over the whole (window, stride) grid under group_by with three alternating keys and inputs long enough
    to wrap every key's slot ring three times; large batch / window sizes; split on equal-but-not-identical predicate values."""
    out = []
    for w in range(1, 7):
        for s in range(1, 7):
            n = 3 * (3 * (w + s) + 2)
            for inner in ([['to_list']], [['sum', True]]):
                out.append(([['group_by', 'mod3', [['roll', w, s, inner]]]], list(range(n))))
    out.append(([['batch', 300]], list(range(601))))
    out.append(([['group_by', 'mod2', [['batch', 300]]]], list(range(1200))))
    out.append(([['roll', 300, 300, [['count', True]]]], list(range(605))))
    out.append(([['roll', 260, 130, [['count', True]]]], list(range(530))))
    for seq in spaces.sequences([0, 1, 2], 5):
        out.append(([['split', 'p_big', [['to_list']]]], seq))
        out.append(([['group_by', 'mod2', [['split', 'p_str', [['count', True]]]]]], seq))
    return out


# dual-mode leaf pipelines for the driver-mode family: plain observable / multiplexed, Subject-driven / cold rx.from_ source
MODE_LEAVES = [[['map', 'inc']], [['filter', 'even']], [['scan', 'add', '0']], [['count']], [['sum', True]], [['mean']], [['min']],
               [['max', True]], [['last']], [['to_list']], [['batch', 2]], [['duc']], [['identity']], [['clip', 0, 1]],
               [['map', 'dup'], ['flat_map']], [['map', 'dup'], ['flat_map'], ['count']], [['map', 'dup'], ['flat_map'], ['to_list']],
               [['map', 'inc'], ['filter', 'even'], ['scan', 'add', '0']], [['do_action', 'da'], ['count', True]],
               [['tee_map', 'merge', [['count']], [['last']]]], [['tee_map', 'zip', [['map', 'inc']], [['scan', 'add', '0']]]],
               [['tee_map', 'combine_latest', [['filter', 'even']], [['count']]]]]
MODES = [('subject', False), ('cold', False), ('cold', True)]


def units(tier):
    progs = programs(tier)
    L = 4 if tier == 'quick' else 5
    out = [{'progs': part, 'L': L} for part in spaces.shard(progs, 400 if tier == 'quick' else 3000)]
    out.append({'modes': 'leaves', 'L': L})
    out.append({'framing': 'line'})
    for size in (1, 2, 4):
        out.append({'framing': 'lp', 'size': size})
    out.append({'source': 'from_iterable'})
    out += [{'modes': 'nested', 'progs': part, 'L': 3} for part in spaces.shard(progs[::3], 16)]
    nd = len(deep_specs())
    out += [{'deep': [i, min(nd, i + 40)]} for i in range(0, nd, 40)]
    return out


def cases(unit):
    if 'deep' in unit:
        ds = deep_specs()
        for i in range(*unit['deep']):
            yield {'spec': ds[i][0], 'seq': ds[i][1]}
        return
    if 'framing' in unit:
        # un-framing, step by step: every frame is delivered with the chunk that completes it
        alpha = ['', 'a', 'bc'] if unit['framing'] == 'line' else [b'', b'a', b'bc']
        for items in spaces.sequences(alpha, 3):
            yield {'framing': unit['framing'], 'size': unit.get('size'), 'items': [i if isinstance(i, str) else i.decode() for i in items]}
        return
    if 'source' in unit:
        for n in (0, 1, 2, 6):
            for progress in (False, True, {'interval': 1000}):
                for mux in (False, True):
                    yield {'source': 'from_iterable', 'n': n, 'progress': progress, 'mux': mux}
        return
    if unit.get('modes') == 'leaves':
        for leaf in MODE_LEAVES:
            for driver, mux in MODES:
                for seq in spaces.sequences([0, 1, 2], unit['L']):
                    if not mux and not seq and 'last' in harness.opnames(leaf):
                        continue          # plain RxPY last() raises on an empty source by design
                    yield {'spec': leaf, 'seq': seq, 'driver': driver, 'mux': mux}
        return
    for (p1, p2, leaf) in unit['progs']:
        spec = wrap(p1, wrap(p2, leaf))
        if excluded(spec):
            continue
        for seq in spaces.sequences([0, 1, 2], unit['L']):
            if unit.get('modes') == 'nested':
                if not ((p1 == 'tsplit_inc' and seq and seq[-1] % 2 == 0) or (p1 == 'tsplit_exc' and seq and seq[0] % 2 == 0)):
                    yield {'spec': spec, 'seq': seq, 'driver': 'cold', 'mux': True}
                continue
            # time_split opens windows eagerly; a window that stays empty (stream ends right after an included closing
            # item / starts with an excluded closing item) is not specified by any property: such inputs are left out
            if p1 == 'tsplit_inc' and seq and seq[-1] % 2 == 0:
                continue
            if p1 == 'tsplit_exc' and seq and seq[0] % 2 == 0:
                continue
            yield {'spec': spec, 'seq': seq}


def viol(spec, sym, detail, case=None):
    names = harness.opnames(spec)
    if case is not None and (case.get('driver') or not case.get('mux', True)):
        sym = '%s[%s,%s]' % (sym, case.get('driver', 'subject'), 'mux' if case.get('mux', True) else 'plain')
        detail = dict(detail, driver=case.get('driver', 'subject'), mux=case.get('mux', True))
    fam = '+'.join(sorted(set(n for n in names if n in ('group_by', 'roll', 'split', 'time_split', 'tee_map', 'batch')))) or 'leaf'
    return {'signature': 'C11|%s|%s' % (fam, sym), 'detail': detail}


def run_framing(case, acc):
    import rxsci.framing.line as line
    import rxsci.framing.length_prefix as lp
    from rx.subject import Subject
    from ..bytelevel import RawSink, run
    out = []
    if case['framing'] == 'line':
        items = list(case['items'])
        framed = ''.join(run([line.frame()], items).items)
        unframe = line.unframe
        complete = lambda prefix: prefix.count('\n')
    else:
        items = [i.encode() for i in case['items']]
        size = case['size']
        framed = b''.join(run([lp.frame(size, 'big')], items).items)
        unframe = lambda: lp.unframe(size, 'big')

        def complete(prefix):
            n = pos = 0
            while pos + size <= len(prefix):
                ln = int.from_bytes(prefix[pos:pos + size], 'big')
                if pos + size + ln > len(prefix):
                    break
                pos += size + ln
                n += 1
            return n
    for cuts in spaces.cut_sets(len(framed), None):
        chunks = spaces.chunk(framed, cuts)
        src = Subject()
        sink = RawSink()
        sink.subscribe_to(src.pipe(unframe()))
        sofar = framed[:0]
        acc.evals += 1
        acc.traces += 1
        acc.events += len(chunks) + 1
        for k, c in enumerate(chunks):
            src.on_next(c)
            sofar = sofar + c
            want = complete(sofar)
            if len(sink.items) != want or sink.items != items[:want]:
                sym = 'emitted-late' if len(sink.items) < want else ('emitted-early' if len(sink.items) > want else 'outputs-value')
                out.append({'signature': 'C11|framing-%s|%s' % (case['framing'], sym),
                            'detail': {'items': items, 'chunks': chunks, 'after_chunk': k, 'complete_frames_so_far': want, 'emitted': list(sink.items)}})
                return out
        src.on_completed()
        if sink.items != items or sink.completed != 1:
            out.append({'signature': 'C11|framing-%s|outputs-at-completion' % case['framing'], 'detail': {'items': items, 'chunks': chunks, 'emitted': list(sink.items)}})
            return out
        acc.outcomes.add(fast_hash(repr((case['framing'], chunks))))
    acc.count('framing_chunk_schedules')
    return out


def run_source(case, acc):
    """rs.ops.from_iterable over a generator: item k is emitted when exactly k+1 elements have been taken from the generator."""
    import contextlib
    import io
    import rx
    import rxsci as rs
    from ..drivers import Sink, new_store
    n = case['n']
    taken = [0]

    def gen():
        for i in range(n):
            taken[0] += 1
            yield i
    seen = []
    sink = Sink()
    with contextlib.redirect_stderr(io.StringIO()):
        try:
            src = rs.ops.from_iterable(gen(), progress=case['progress'])
        except Exception:
            return []          # no progress bar package in this environment
        ops_ = [rs.ops.map(lambda x: (seen.append((x, taken[0])), x)[1])]
        obs = src.pipe(rs.state.with_store(new_store(), ops_)) if case['mux'] else src.pipe(*ops_)
        sink.subscribe_to(obs)
    acc.evals += 1
    acc.traces += 1
    acc.events += n + 1
    out = []
    if sink.error is not None or sink.completed != 1 or sink.items != list(range(n)):
        out.append({'signature': 'C11|from_iterable|outputs-differ', 'detail': dict(case, emitted=sink.items, error=repr(sink.error))})
    elif seen != [(i, i + 1) for i in range(n)]:
        out.append({'signature': 'C11|from_iterable|source-consumed-ahead-of-its-output',
                    'detail': dict(case, item_and_elements_taken_when_emitted=seen)})
    acc.outcomes.add(fast_hash(repr((case, seen))))
    return out


def run_case(case, acc):
    if 'framing' in case:
        return run_framing(case, acc)
    if 'source' in case:
        return run_source(case, acc)
    spec, seq = case['spec'], case['seq']
    key = repr(spec)
    acc.programs.add(fast_hash(key))
    mux = case.get('mux', True)
    if case.get('driver', 'subject') == 'cold':
        steps, end, sink = harness.run_steps_cold(spec, seq, mux=mux)
        acc.count('cold_source_runs')
    else:
        steps, end, sink = harness.run_steps(spec, seq, mux=mux)
    if not mux:
        acc.count('plain_observable_runs')
    msteps, mend = harness.model_steps(spec, seq)
    acc.evals += 1
    acc.events += len(seq) + 1
    acc.traces += 1
    out = []
    multiset = overlapping_roll(spec)
    sp = harness.status_problem(sink)
    if sp:
        out.append(viol(spec, sp, {'spec': spec, 'seq': seq, 'error': repr(sink.error)}, case))
    if sink.before_first_input:
        out.append(viol(spec, 'emitted-before-any-input-was-consumed', {'spec': spec, 'seq': seq, 'emitted': sink.before_first_input}, case))
    bad = None
    sofar = []
    for t, (a, b) in enumerate(zip(msteps + [mend], steps + [end])):
        same = harness.same_multiset(a, b) if multiset else a == b
        if not same and bad is None:
            bad = t
        sofar.extend(b)
        acc.states.add(fast_hash((key, repr(sofar))))
    if bad is not None:
        flat_m = [x for s in msteps for x in s] + mend
        flat_i = [x for s in steps for x in s] + end
        if harness.same_multiset(flat_m, flat_i):
            if not harness.same_multiset(msteps[bad] if bad < len(msteps) else mend, steps[bad] if bad < len(steps) else end):
                n_m = sum(len(s) for s in msteps[:bad + 1]) if bad < len(msteps) else len(flat_m)
                n_i = sum(len(s) for s in steps[:bad + 1]) if bad < len(steps) else len(flat_i)
                sym = 'emitted-late' if n_i < n_m else 'emitted-early'
            else:
                sym = 'order-within-step'
        else:
            sym = 'outputs-' + str(harness.diff_kind(flat_m, flat_i))
        out.append(viol(spec, sym, {'spec': spec, 'seq': seq, 'first_differing_step': bad,
                                    'expected_per_step': msteps + [mend], 'observed_per_step': steps + [end]}, case))
    acc.outcomes.add(fast_hash(repr((steps, end))))
    if len(seq) >= 2 and len(harness.opnames(spec)) > len([o for o in spec]):
        acc.nontrivial.add(fast_hash(repr(case)))
    if any(steps) and end:
        acc.count('outputs_both_during_and_at_completion')
    return out


def guards(acc, tier):
    msgs = []
    if acc.counters.get('outputs_both_during_and_at_completion', 0) < 1:
        msgs.append('no execution with outputs both during the stream and at completion')
    if len(acc.outcomes) < 500:
        msgs.append('fewer than 500 distinct outcomes')
    return msgs


def unit_test(case):
    spec, seq = case['spec'], case['seq']
    msteps, mend = harness.model_steps(spec, seq)
    src = opspecs.to_source(harness.strip_taps(spec), 2)
    return ("import sys\nsys.path[:0] = ['/repo', '/verif']\nimport rx\nfrom rx.subject import Subject\nimport rxsci as rs\n"
            "from mc.opspecs import FUNCS as F\n\nsource, out, steps = Subject(), [], []\n"
            "source.pipe(rs.state.with_memory_store([\n%s])).subscribe(on_next=out.append)\n"
            "for x in %r:\n    n = len(out)\n    source.on_next(x)\n    steps.append(out[n:])      # emitted while x was processed\n"
            "n = len(out)\nsource.on_completed()\nsteps.append(out[n:])\nprint(steps)\n"
            "print('reference interpreter:', %r)\n" % (src, seq, msteps + [mend]))
