"""C12 - math aggregates are accurate and numerically stable."""
import itertools
import math
from fractions import Fraction

import rx
import rxsci as rs

from .. import spaces
from ..bytelevel import RawSink
from ..engine import fast_hash

ID = 'C12'
TITLE = 'Math aggregates are accurate and numerically stable'
LEVEL = 'model_checking'
RULE = ('(1) small scope: EVERY sequence of length 1..4 over a 10-value float alphabet spanning scales and signs {0.0, 1.0, -1.0, 0.1, '
        '1e-8, 1e8, 1e6, 1e6+1, -1e6, 3.0} and every int sequence of length <= 4 over {-2, 0, 1, 7}, plus the empty sequence for '
        'sum/min/max/variance; (2) structured long inputs: pattern {ramp, alternating, constant, lcg, spike} x length {1,2,3,5,10,100,'
        '1000,10^4} x offset {0,1,1e3,1e6,-1e6,1e9} x scale {1,1e-8,1e-3,1e8}. Operators sum, mean, min, max, variance, stddev, '
        'formal.variance, formal.stddev, streaming (checked after EVERY item) and reduce, on plain observables, through '
        'with_memory_store, with key_mapper, and under group_by with two interleaved keys. Oracle: exact rational arithmetic '
        '(fractions.Fraction) on the same floats with the textbook forward-error bounds (recursive summation; Chan-Golub-LeVeque '
        'for Welford / two-pass variance). Non-trivial = sequence with >= 2 distinct values; states = distinct (operator, item '
        'count, accumulated exact statistic) observations; transitions = items pushed.')
DEEP_PROBES = ('magnitudes around 1e152 and DBL_MAX')
ASSUMPTIONS = ['"all floats" is not enumerable: the float alphabet and the structured grid are what is covered',
               'error bounds: |err(sum)| <= 2 n u sum|x|; |err(var)| <= 8 n u sqrt(V (V + M^2)) + 8 (n u)^2 (V + M^2), u = 2^-53',
               'formal.* streaming is O(n^2) by design and checked up to length 1000; its reduce form up to 10^4']
LEVEL_TEXT = ('Bounded-exhaustive model checking of the streaming aggregates: every short sequence over a float alphabet chosen to '
              'provoke cancellation and absorption, and a structured grid of long inputs, compared after every item with exact '
              'rational arithmetic under condition-number based tolerances that a stable algorithm meets and an unstable one '
              '(sum of squares) does not.')
LEVEL_NOTE = 'Trusted: fractions.Fraction arithmetic; the stated error bounds (worst observed error/tolerance is reported).'
TECHNIQUE = 'bounded-exhaustive exploration of input sequences against exact rational arithmetic with forward-error bounds'

U = 2.0 ** -53
FLOATS = [0.0, 1.0, -1.0, 0.1, 1e-8, 1e8, 1e6, 1e6 + 1, -1e6, 3.0]
INTS = [-2, 0, 1, 7]
OPS = ['sum', 'mean', 'min', 'max', 'variance', 'stddev', 'fvariance', 'fstddev']


def build(op, reduce, key_mapper=None):
    kw = {'reduce': reduce}
    if key_mapper is not None:
        kw['key_mapper'] = key_mapper
    return {
        'sum': rs.math.sum, 'mean': rs.math.mean, 'min': rs.math.min, 'max': rs.math.max, 'variance': rs.math.variance,
        'stddev': rs.math.stddev, 'fvariance': rs.math.formal.variance, 'fstddev': rs.math.formal.stddev,
    }[op](**kw)


def bounds(tier):
    return {'small_scope_len': 4 if tier == 'quick' else 5, 'float_alphabet': FLOATS, 'structured_inputs': 960,
            'max_len': 10000, 'formal_streaming_max_len': 1000}


def pattern(name, n):
    if name == 'ramp':
        return [float(i) for i in range(n)]
    if name == 'alternating':
        return [1.0 if i % 2 else -1.0 for i in range(n)]
    if name == 'constant':
        return [1.0] * n
    if name == 'lcg':
        out, s = [], 12345
        for _ in range(n):
            s = (1103515245 * s + 12345) % (2 ** 31)
            out.append(s / 2 ** 31 - 0.5)
        return out
    if name == 'spike':
        return [0.0] * (n - 1) + [1000.0] if n else []
    raise ValueError(name)


STRUCT = [(p, n, off, sc) for p in ('ramp', 'alternating', 'constant', 'lcg', 'spike') for n in (1, 2, 3, 5, 10, 100, 1000, 10000)
          for off in (0.0, 1.0, 1e3, 1e6, -1e6, 1e9) for sc in (1.0, 1e-8, 1e-3, 1e8)]


def units(tier):
    out = []
    L = 4 if tier == 'quick' else 5
    n = 16 if tier == 'quick' else 64
    for sh in range(n):
        out.append({'fam': 'small', 'L': L, 'shard': [sh, n]})
    out.append({'fam': 'ints'})
    out.append({'fam': 'huge'})
    out.append({'fam': 'empty'})
    idx = list(range(len(STRUCT)))
    big = [i for i in idx if STRUCT[i][1] == 10000]
    rest = [i for i in idx if STRUCT[i][1] != 10000]
    for i in big:
        out.append({'fam': 'struct', 'idx': [i]})
    for part in spaces.shard(rest, 40):
        out.append({'fam': 'struct', 'idx': part})
    for sh in range(8):
        out.append({'fam': 'modes', 'shard': [sh, 8], 'L': 3 if tier == 'quick' else 4})
    return out


def cases(unit):
    fam = unit['fam']
    if fam == 'small':
        sh, n = unit['shard']
        for i, seq in enumerate(spaces.sequences(range(len(FLOATS)), unit['L'], 1)):
            if i % n == sh:
                yield {'fam': 'small', 'seq': seq}
    elif fam == 'ints':
        for seq in spaces.sequences(INTS, 4, 1):
            yield {'fam': 'ints', 'seq': seq}
    elif fam == 'huge':
        for seq in spaces.sequences([0, 1, 2], 3, 1):
            yield {'fam': 'huge', 'seq': seq, 'which': 'big'}
        for seq in spaces.sequences([0, 1, 2], 3, 1):
            yield {'fam': 'huge', 'seq': seq, 'which': 'max'}
    elif fam == 'empty':
        yield {'fam': 'empty'}
    elif fam == 'struct':
        for i in unit['idx']:
            yield {'fam': 'struct', 'i': i}
    else:
        sh, n = unit['shard']
        for i, seq in enumerate(spaces.sequences(range(len(FLOATS)), unit['L'], 1)):
            if i % n == sh:
                yield {'fam': 'modes', 'seq': seq}


def viol(op, sym, detail):
    return {'signature': 'C12|%s|%s' % (op, sym), 'detail': detail}


def exact_prefix_stats(xs):
    """After each item: (n, sum, sum of squares, sum|x|, min, max) exactly."""
    s1 = Fraction(0)
    s2 = Fraction(0)
    sa = Fraction(0)
    lo = hi = None
    out = []
    for n, x in enumerate(xs, 1):
        fx = Fraction(x)
        s1 += fx
        s2 += fx * fx
        sa += abs(fx)
        lo = x if lo is None or x < lo else lo
        hi = x if hi is None or x > hi else hi
        out.append((n, s1, s2, sa, lo, hi))
    return out


def expected(op, st):
    """(exact value as Fraction/None, tolerance as float)"""
    n, s1, s2, sa, lo, hi = st
    if op == 'sum':
        return s1, 2 * n * U * float(sa) + 5e-324
    if op == 'mean':
        m = s1 / n
        return m, 2 * n * U * float(sa) / n + 2 * U * abs(float(m)) + 5e-324
    if op == 'min':
        return Fraction(lo), 0.0
    if op == 'max':
        return Fraction(hi), 0.0
    mean = s1 / n
    ss = s2 - s1 * s1 / n            # exact sum of squared deviations
    if op in ('variance', 'stddev'):
        v = ss / (n - 1) if n >= 2 else Fraction(0)
    else:
        v = ss / n
    V, M = float(v), abs(float(mean))
    K = 8
    # sqrt(V) * sqrt(V + M^2) instead of sqrt(V * (V + M^2)): no overflow for magnitudes around 1e152
    spread = math.sqrt(V) * math.sqrt(V + M * M) if math.isfinite(V + M * M) else math.sqrt(V) * max(math.sqrt(V), M)
    tol = K * n * U * spread + K * (n * U) ** 2 * (V + M * M if math.isfinite(V + M * M) else spread) + 5e-324
    if op in ('variance', 'fvariance'):
        return v, tol
    sd = math.sqrt(V)
    tol_sd = min(tol / sd if sd > 0 else float('inf'), math.sqrt(tol)) + 4 * U * sd + 5e-324
    return ('sqrt', v), tol_sd


def check_value(op, got, st):
    exp, tol = expected(op, st)
    if got is None:
        return 'none-emitted', None, tol
    if isinstance(exp, tuple):
        ref = math.sqrt(float(exp[1])) if exp[1] >= 0 else float('nan')
        err = abs(got - ref)
    else:
        try:
            err = abs(float(Fraction(got) - exp))
        except (ValueError, OverflowError, TypeError):
            return 'not-a-finite-number', None, tol
    if err <= tol:
        return None, (err / tol if tol > 0 else 0.0), tol
    return 'error-exceeds-bound', err, tol


def _subscribe(obs, n):
    """Short inputs are subscribed twice on the same observable; the second outcome is kept for comparison."""
    sink = RawSink()
    sink.subscribe_to(obs)
    if n <= 4:
        sink.second = RawSink()
        sink.second.subscribe_to(obs)
    return sink


def second_differs(s):
    b = getattr(s, 'second', None)
    return b is not None and s.error is None and (repr(s.items) != repr(b.items) or s.completed != b.completed or type(b.error) is not type(s.error))


def run_plain(op, reduce, xs, key_mapper=None):
    return _subscribe(rx.from_(xs).pipe(build(op, reduce, key_mapper)), len(xs))


def run_mux(op, reduce, xs):
    return _subscribe(rx.from_(xs).pipe(rs.state.with_memory_store([build(op, reduce)])), len(xs))


def check_seq(xs, acc, ops, label, out, seen, streaming_limit=None, runner=run_plain, steps=None):
    stats = exact_prefix_stats(xs)
    n = len(xs)
    for op in ops:
        formal = op in ('fvariance', 'fstddev')
        do_stream = not (formal and n > 1000)
        last_stream = None
        if do_stream:
            s = runner(op, False, xs)
            acc.evals += 1
            acc.events += n + 1
            acc.traces += 1
            if second_differs(s):
                _rep(out, seen, op, 'second-subscription-differs', {'input': label, 'first': repr(s.items), 'second': repr(s.second.items)})
            if s.error is not None or s.completed != 1 or len(s.items) != n:
                _rep(out, seen, op, 'streaming-emits-%d-values-for-%d-items' % (len(s.items), n) if s.error is None else 'streaming-error',
                     {'input': label, 'error': repr(s.error)})
            else:
                idxs = range(n) if (steps is None or n <= 1000) else sorted(set(list(range(0, n, 97)) + list(range(n - 5, n))))
                for i in idxs:
                    sym, err, tol = check_value(op, s.items[i], stats[i])
                    if sym:
                        extra = ''
                        if op.startswith('f') and s.items[i] == 0.0 and i >= 1:
                            extra = '-streaming-value-is-0.0'
                        _rep(out, seen, op, 'streaming-' + sym + extra,
                             {'input': label, 'after_items': i + 1, 'emitted': repr(s.items[i]), 'exact': _show(op, stats[i]),
                              'abs_error': err, 'tolerance': tol})
                        break
                    elif err is not None:
                        acc.counters['worst_error_over_tolerance_x1000'] = max(acc.counters.get('worst_error_over_tolerance_x1000', 0), int(err * 1000))
                    acc.states.add(fast_hash((op, i, repr(s.items[i]))))
                last_stream = s.items[-1] if s.items else None
        r = runner(op, True, xs)
        acc.evals += 1
        acc.events += n + 1
        acc.traces += 1
        if second_differs(r):
            _rep(out, seen, op, 'second-subscription-differs', {'input': label, 'first': repr(r.items), 'second': repr(r.second.items)})
        if r.error is not None or r.completed != 1 or len(r.items) != 1:
            _rep(out, seen, op, 'reduce-emits-%d-values' % len(r.items) if r.error is None else 'reduce-error', {'input': label, 'error': repr(r.error)})
            continue
        sym, err, tol = check_value(op, r.items[0], stats[-1])
        if sym:
            _rep(out, seen, op, 'reduce-' + sym, {'input': label, 'emitted': repr(r.items[0]), 'exact': _show(op, stats[-1]), 'abs_error': err,
                                                 'tolerance': tol})
        if do_stream and last_stream is not None and not (last_stream == r.items[0]):
            _rep(out, seen, op, 'last-streaming-value-differs-from-reduce', {'input': label, 'streaming': repr(last_stream), 'reduce': repr(r.items[0])})
        if n < 2 and op in ('variance', 'stddev', 'fvariance', 'fstddev') and r.items[0] != 0:
            _rep(out, seen, op, 'variance-of-fewer-than-two-items-not-0', {'input': label, 'emitted': repr(r.items[0])})


def _show(op, st):
    exp, _ = expected(op, st)
    if isinstance(exp, tuple):
        return 'sqrt(%r)' % float(exp[1])
    return repr(float(exp))


def _rep(out, seen, op, sym, detail):
    if (op, sym) not in seen:
        seen.add((op, sym))
        out.append(viol(op, sym, detail))


def run_case(case, acc):
    fam = case['fam']
    out, seen = [], set()
    if fam == 'small':
        xs = [FLOATS[i] for i in case['seq']]
        check_seq(xs, acc, OPS, xs, out, seen)
        if len(set(xs)) >= 2:
            acc.nontrivial.add(fast_hash(tuple(xs)))
        if len(set(xs)) == 1 and len(xs) >= 2:
            acc.count('constant_sequences')
    elif fam == 'ints':
        xs = list(case['seq'])
        check_seq(xs, acc, OPS, xs, out, seen)
        acc.nontrivial.add(fast_hash(('i',) + tuple(xs)))
    elif fam == 'huge':
        import sys
        if case['which'] == 'big':
            xs = [[2e152, -1e152, 3e152][i] for i in case['seq']]
            check_seq(xs, acc, OPS, xs, out, seen)
        else:
            xs = [[sys.float_info.max, -sys.float_info.max, 1e308][i] for i in case['seq']]
            check_seq(xs, acc, ['min', 'max'], xs, out, seen)
        acc.nontrivial.add(fast_hash(('huge', case['which'], tuple(case['seq']))))
    elif fam == 'empty':
        # length 0 is quantified for sum, min, max and variance only; an empty min / max has no value: None or nothing
        for op, want in (('sum', 0.0), ('min', None), ('max', None), ('variance', 0.0)):
            for runner in (run_plain, run_mux):
                r = runner(op, True, [])
                acc.evals += 1
                if r.error is not None or (r.items != [want] and not (want is None and r.items == [])):
                    _rep(out, seen, op, 'empty-sequence-reduce-not-%r' % (want,), {'emitted': r.items, 'error': repr(r.error)})
                s = runner(op, False, [])
                acc.evals += 1
                if s.error is not None or s.items != []:
                    _rep(out, seen, op, 'empty-sequence-streaming-emits', {'emitted': s.items, 'error': repr(s.error)})
    elif fam == 'struct':
        p, n, off, sc = STRUCT[case['i']]
        xs = [off + sc * v for v in pattern(p, n)]
        label = {'pattern': p, 'length': n, 'offset': off, 'scale': sc}
        check_seq(xs, acc, OPS, label, out, seen, steps='sparse')
        acc.nontrivial.add(fast_hash((p, n, off, sc)))
        if n >= 1000:
            acc.count('long_inputs')
    else:
        xs = [FLOATS[i] for i in case['seq']]
        # with_memory_store, key_mapper, group_by with two interleaved keys
        check_seq(xs, acc, OPS, {'mode': 'with_memory_store', 'items': xs}, out, seen, runner=run_mux)
        tup = [(x, 'pad') for x in xs]
        check_seq_keymapper(xs, tup, acc, out, seen)
        check_grouped(xs, acc, out, seen)
        acc.count('mux_mode_sequences')
    acc.outcomes.add(fast_hash(repr(case)))
    return out


def check_seq_keymapper(xs, tup, acc, out, seen):
    km = lambda t: t[0]
    for op in OPS:
        a = run_plain(op, False, xs)
        b = run_plain(op, False, tup, key_mapper=km)
        acc.evals += 2
        acc.events += 2 * len(xs)
        if repr(a.items) != repr(b.items) or (a.error is None) != (b.error is None):
            _rep(out, seen, op, 'key_mapper-changes-the-result', {'items': xs, 'plain': a.items, 'with_key_mapper': b.items, 'error': repr(b.error)})
        # the documented signature is (key_mapper, reduce): both given positionally is the same call
        fn = {'sum': rs.math.sum, 'mean': rs.math.mean, 'min': rs.math.min, 'max': rs.math.max, 'variance': rs.math.variance,
              'stddev': rs.math.stddev, 'fvariance': rs.math.formal.variance, 'fstddev': rs.math.formal.stddev}[op]
        # called without arguments the aggregate streams (one value per item): same as reduce=False
        e = _subscribe(rx.from_(xs).pipe(fn()), len(xs))
        acc.evals += 1
        if repr(a.items) != repr(e.items) or (a.error is None) != (e.error is None):
            _rep(out, seen, op, 'default-arguments-change-the-result', {'items': xs, 'reduce=False': a.items, 'no arguments': e.items, 'error': repr(e.error)})
        if xs:
            c = run_plain(op, True, xs)
            d = _subscribe(rx.from_(tup).pipe(fn(km, True)), len(tup))
            acc.evals += 2
            acc.events += 2 * len(xs)
            if repr(c.items) != repr(d.items) or (c.error is None) != (d.error is None):
                _rep(out, seen, op, 'positional-arguments-change-the-result', {'items': xs, 'keywords': c.items, 'positional': d.items, 'error': repr(d.error)})


def check_grouped(xs, acc, out, seen):
    """two interleaved keys, each receiving xs (second key negated): per-key values must equal the plain run."""
    items = []
    for x in xs:
        items.append((0, x))
        items.append((1, -x))
    for op in OPS:
        for reduce in (False, True):
            sink = RawSink()
            sink.subscribe_to(rx.from_(items).pipe(rs.state.with_memory_store([
                rs.ops.group_by(lambda t: t[0], [rs.ops.tee_map(rx.pipe(rs.ops.map(lambda t: t[0])), rx.pipe(build(op, reduce, lambda t: t[1])),
                                                                join='combine_latest' if reduce else 'zip')])])))
            acc.evals += 1
            acc.events += len(items) + 1
            acc.traces += 1
            if sink.error is not None:
                _rep(out, seen, op, 'grouped-error', {'items': xs, 'error': repr(sink.error)})
                continue
            for k, sign in ((0, 1), (1, -1)):
                got = [v for kk, v in sink.items if kk == k and v is not None]
                if reduce:
                    got = got[-1:]
                want = run_plain(op, reduce, [sign * x for x in xs]).items
                acc.evals += 1
                if repr(got) != repr(want):
                    _rep(out, seen, op, 'grouped-values-differ-from-plain', {'items': xs, 'key': k, 'reduce': reduce, 'grouped': got, 'plain': want})


def guards(acc, tier):
    msgs = []
    for name in ('constant_sequences', 'long_inputs', 'mux_mode_sequences'):
        if acc.counters.get(name, 0) < 1:
            msgs.append('no execution with %s' % name)
    return msgs
