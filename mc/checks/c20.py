"""C20 - parquet dump/load round-trips rows for every row count and batch size."""
import io
import os
import shutil
import tempfile

import pyarrow as pa
import pyarrow.parquet as pq
import rx
import rxsci.container.parquet as rsparquet

from ..bytelevel import RawSink
from ..engine import fast_hash

ID = 'C20'
TITLE = 'Parquet dump/load round-trips rows for every row count and batch size'
LEVEL = 'exploration'
RULE = ('the complete grid rows 0..40 x dump batch_size 1..12 x load batch_size {1, 2, 7, 1024} (thorough adds rows {1023, 1024, 1025, '
        '2048, 5000} x batch {1, 1024, 2000}, row_group_size {None, 3}, every codec available in this pyarrow, a schema with '
        'int/string/float/struct/list columns, file path and file object): the real dump_to_file writes the file, '
        'pyarrow.parquet.read_table (independent reader) and the real load_from_file read it back; both must equal the source rows, '
        'once each and in order. Non-trivial = distinct grid point with at least two batches.')
DEEP_PROBES = ('batch sizes 257 / 300 with 257 / 600 / 601 rows; 5-8 column schemas with 1 024..3 276 rows; values with equal hashes, None values, dict key order different from the schema')
ASSUMPTIONS = ['row values are small ints / short strings / halves; schemas as listed', 'grid bounds as stated']
LEVEL_TEXT = ('Exhaustive small-scope exploration of the (row count, dump batch size, load batch size) grid of the real writer/reader '
              'pair against an independent reader; defects of this code are divisibility / batching arithmetic, which the complete '
              'grid visits.')
LEVEL_NOTE = 'Trusted: pyarrow.parquet.read_table as independent reader; Python equality of row dicts.'
TECHNIQUE = 'bounded-exhaustive configuration grid exploration of the real parquet writer/reader against an independent reader'

SCHEMA = pa.schema([('i', pa.int64()), ('s', pa.string()), ('f', pa.float64())])
WIDE = {n: pa.schema([('c%d' % j, pa.int64()) for j in range(n)]) for n in (1, 2, 5, 6, 7, 8)}
ONE_STR = pa.schema([('s', pa.string())])          # a single string column (a row is a 1-tuple, a string is iterable)
NESTED = pa.schema([('i', pa.int64()), ('p', pa.struct([('x', pa.int32()), ('y', pa.string())])), ('l', pa.list_(pa.int64()))])


def rows_of(n, nested=False):
    if nested:
        return [{'i': k, 'p': {'x': k % 5, 'y': 'y%d' % k}, 'l': list(range(k % 4))} for k in range(n)]
    rows = []
    for k in range(n):
        s_val = None if k % 5 == 4 else 's%d' % (k % 7)
        i_val = k - 2 if k < 4 else k + (2 ** 61 - 1) * (k % 3 == 0)      # -2, -1, 0, 1 and values with colliding hashes
        if k % 2:        # dict key order differs from the schema's column order
            rows.append({'f': (k - 2) / 2, 's': s_val, 'i': i_val})
        else:
            rows.append({'i': i_val, 's': s_val, 'f': float(k - 2)})
    return rows


def codecs():
    out = []
    for c in ('NONE', 'SNAPPY', 'GZIP', 'ZSTD', 'LZ4', 'BROTLI'):
        try:
            if pa.Codec.is_available(c.lower()) or c == 'NONE':
                out.append(c.lower() if c != 'NONE' else 'none')
        except Exception:
            pass
    return out


def bounds(tier):
    return {'rows': '0..40' if tier == 'quick' else '0..80', 'dump_batch': '1..12' if tier == 'quick' else '1..20', 'load_batch': [1, 2, 7, 1024], 'codecs': codecs() if tier != 'quick' else ['snappy']}


def units(tier):
    out = []
    for n in range(0, 41 if tier == 'quick' else 81):
        out.append({'fam': 'grid', 'rows': n, 'maxb': 12 if tier == 'quick' else 20})
    if tier != 'quick':
        for n in (1023, 1024, 1025, 2048, 5000):
            out.append({'fam': 'big', 'rows': n})
        for c in codecs():
            out.append({'fam': 'codec', 'codec': c})
    out.append({'fam': 'variants'})
    return out


def cases(unit):
    if unit['fam'] == 'grid':
        for b in range(1, unit.get('maxb', 12) + 1):
            yield {'fam': 'grid', 'rows': unit['rows'], 'batch': b}
    elif unit['fam'] == 'big':
        for b in (1, 1024, 2000):
            if not (b == 1 and unit['rows'] > 1100):
                yield {'fam': 'big', 'rows': unit['rows'], 'batch': b}
    elif unit['fam'] == 'codec':
        for n, b in ((0, 3), (7, 3), (9, 3), (10, 20)):
            yield {'fam': 'codec', 'codec': unit['codec'], 'rows': n, 'batch': b}
    else:
        for ncols, n in ((5, 1638), (6, 1365), (7, 1170), (8, 1024), (5, 3276)):
            yield {'fam': 'variants', 'rows': n, 'batch': 4096, 'row_group_size': None, 'nested': False, 'fileobj': False, 'wide': ncols}
        for n, b in ((600, 300), (601, 300), (257, 257)):
            yield {'fam': 'variants', 'rows': n, 'batch': b, 'row_group_size': None, 'nested': False, 'fileobj': False}
        for n, b in ((0, 2), (1, 2), (3, 2), (4, 2)):
            for w in (1, 2, 'str'):
                yield {'fam': 'variants', 'rows': n, 'batch': b, 'row_group_size': None, 'nested': False, 'fileobj': False, 'wide': w}
            yield {'fam': 'variants', 'rows': n, 'batch': b, 'row_group_size': None, 'nested': False, 'fileobj': 'bytesio'}
        yield {'fam': 'rewrite'}
        for n, b in ((0, 2), (5, 2), (6, 2), (6, 3), (7, 10)):
            for rg in (None, 3):
                for nested in (False, True):
                    for fileobj in (False, True):
                        yield {'fam': 'variants', 'rows': n, 'batch': b, 'row_group_size': rg, 'nested': nested, 'fileobj': fileobj}


def viol(fam, sym, detail):
    return {'signature': 'C20|%s|%s' % (fam, sym), 'detail': detail}


def classify(rows, got):
    if got == rows:
        return None
    if len(got) > len(rows):
        if len(set(repr(r) for r in got)) == len(rows):
            return 'rows-duplicated'
        return 'extra-rows'
    if len(got) < len(rows):
        return 'rows-missing'
    if sorted(map(repr, got)) == sorted(map(repr, rows)):
        return 'rows-out-of-order'
    return 'row-values-differ'


def run_rewrite(case, acc):
    """The same path written three times with different schemas (other column names, other column order, fewer columns) and
    loaded after each write: what is loaded is what the file holds now, not what an earlier file at that path held."""
    out = []
    d = tempfile.mkdtemp(prefix='c20-')
    try:
        path = os.path.join(d, 'same.parquet')
        for step, cols in enumerate((['a', 'b', 'c'], ['c', 'a', 'b'], ['b', 'z'], ['a', 'b', 'c'])):
            schema = pa.schema([(c, pa.int64()) for c in cols])
            rows = [{c: 100 * step + 10 * k + j for j, c in enumerate(cols)} for k in range(4)]
            s = RawSink()
            s.subscribe_to(rx.from_(rows).pipe(rsparquet.dump_to_file(path, schema, batch_size=3)))
            r = RawSink()
            r.subscribe_to(rsparquet.load_from_file(path, batch_size=2))
            acc.evals += 2
            acc.events += 10
            if s.error is not None or r.error is not None or r.completed != 1:
                out.append(viol('rewrite', 'rewritten-file-not-loaded', {'step': step, 'columns': cols, 'error': repr(s.error or r.error)}))
                break
            if r.items != rows:
                out.append(viol('rewrite', 'rewritten-file-loads-other-rows', {'step': step, 'columns': cols, 'expected': rows[:2], 'loaded': r.items[:2]}))
                break
        acc.count('rewritten_paths')
    finally:
        shutil.rmtree(d, ignore_errors=True)
    return out


def run_case(case, acc):
    if case['fam'] == 'rewrite':
        return run_rewrite(case, acc)
    n, b = case['rows'], case['batch']
    nested = case.get('nested', False)
    schema = NESTED if nested else SCHEMA
    rows = rows_of(n, nested)
    if case.get('wide') == 'str':
        schema = ONE_STR
        rows = [{'s': 'row-%d' % k} for k in range(n)]
    elif case.get('wide'):
        schema = WIDE[case['wide']]
        rows = [{'c%d' % j: k * 10 + j for j in range(case['wide'])} for k in range(n)]
    codec = case.get('codec', 'snappy')
    out = []
    d = tempfile.mkdtemp(prefix='c20-')
    try:
        path = os.path.join(d, 'f.parquet')
        target = path
        fobj = None
        if case.get('fileobj') == 'bytesio':
            import io
            fobj = io.BytesIO()                 # an in-memory file object: its content is only reachable through the object
            target = fobj
        elif case.get('fileobj'):
            fobj = open(path, 'wb')
            target = fobj
        s = RawSink()
        dump_obs = rx.from_(rows).pipe(rsparquet.dump_to_file(target, schema, batch_size=b, compression=codec,
                                                              row_group_size=case.get('row_group_size')))
        at_completion = {}
        if not case.get('fileobj'):
            # completion of the dump is the signal that the file is there: it is read at that very moment as well
            def file_at_completion():
                try:
                    at_completion['rows'] = pq.read_table(path).to_pylist()
                except Exception as e:
                    at_completion['error'] = repr(e)
            dump_obs = dump_obs.pipe(rx.operators.do_action(on_completed=file_at_completion))
        s.subscribe_to(dump_obs)
        if 'error' in at_completion or ('rows' in at_completion and classify(rows, at_completion['rows'])):
            return [viol(case['fam'], 'file-not-complete-when-dump-signals-completion',
                         dict(case, error=at_completion.get('error'), rows_in_file=len(at_completion.get('rows', []))))]
        if case.get('fileobj') == 'bytesio':
            try:
                with open(path, 'wb') as f:
                    f.write(fobj.getvalue())
            except Exception as e:
                return [viol(case['fam'], 'in-memory-file-object-unusable-after-dump', dict(case, error=repr(e)))]
            # the object just filled, handed to load_from_file as it is (its position is at the end of what was written)
            r = RawSink()
            r.subscribe_to(rsparquet.load_from_file(fobj, batch_size=2))
            acc.evals += 1
            if r.error is not None or r.completed != 1 or classify(rows, r.items):
                return [viol(case['fam'], 'file-object-just-written-not-loadable', dict(case, error=repr(r.error), loaded=len(r.items)))]
        elif fobj is not None:
            fobj.close()
        elif n <= 4:
            # the same observable subscribed again rewrites the same file (the content is compared below)
            s = RawSink()
            s.subscribe_to(dump_obs)
            acc.count('second_subscriptions')
        acc.evals += 1
        acc.events += n + 1
        cfg = {k: v for k, v in case.items()}
        if s.error is not None or s.completed != 1:
            return [viol(case['fam'], 'dump-not-completed', dict(cfg, error=repr(s.error)))]
        try:
            ref = pq.read_table(path).to_pylist()
        except Exception as e:
            return [viol(case['fam'], 'file-not-readable-by-pyarrow', dict(cfg, error=repr(e)))]
        k = classify(rows, ref)
        if k:
            out.append(viol(case['fam'], 'file-content-' + k, dict(cfg, rows_in_file=len(ref), first_rows=ref[:6])))
        else:
            for lb in ((1, 2, 7, 1024) if case['fam'] in ('grid',) else ((2, 1024) if not case.get('wide') else (n, 4096, 1024))):
                r = RawSink()
                if case.get('fileobj'):
                    with open(path, 'rb') as f:
                        r.subscribe_to(rsparquet.load_from_file(f, batch_size=lb))
                else:
                    r.subscribe_to(rsparquet.load_from_file(path, batch_size=lb))
                acc.evals += 1
                acc.events += n + 1
                if r.error is not None or r.completed != 1:
                    out.append(viol(case['fam'], 'load-not-completed', dict(cfg, load_batch=lb, error=repr(r.error))))
                    break
                k = classify(rows, r.items)
                if k:
                    out.append(viol(case['fam'], 'loaded-' + k, dict(cfg, load_batch=lb, loaded=len(r.items))))
                    break
        if n > b:
            acc.nontrivial.add(fast_hash(repr(case)))
        if n and n % b == 0:
            acc.count('batch_size_divides_rows')
        acc.outcomes.add(fast_hash((n, b, codec, nested)))
    finally:
        shutil.rmtree(d, ignore_errors=True)
    return out


def guards(acc, tier):
    if acc.counters.get('batch_size_divides_rows', 0) < 10:
        return ['fewer than 10 grid points where the batch size divides the row count']
    return []
