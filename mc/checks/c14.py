"""C14 - MemoryStore behaves as an isolated per-index typed map (explicit-state BFS)."""
import copy
from collections import deque

import rxsci as rs
from rxsci.state.memory_store import MemoryStore
from rxsci.state.store import StoreManager
from rxsci.state.state_topology import StateTopology

from ..engine import fast_hash

ID = 'C14'
ENGINE = 'bfs'
TITLE = 'Memory state store behaves as an isolated per-index typed map'
LEVEL = 'model_checking'
RULE = ('explicit-state breadth-first search over the real MemoryStore object: node = (implementation state, dictionary model), '
        'transition = one real method call on a copy (add_key also on a live key, set, get, del_key, iterate; add_map, get_map, '
        'iterate_map and the complete-key sequence get_map/del_map/del_key for the mapper) over sparse / descending / repeated '
        'indices {0,1,3(,6)} and 2-3 values per data type, with and without default value; nodes are deduplicated on a canonical '
        'form that contains every field of the object. Typed stores are searched to a fixpoint, the mapper store (monotonic '
        'allocator) and a 3-state StoreManager product to a depth bound. After every transition every live index is read back and '
        'compared with the model. Non-trivial = distinct reachable states with at least two live indices.')
DEEP_PROBES = ('far indices {0,9} and {17,130} (+300 thorough), one live slot at every index up to 1 700 (5 000), the index allocator under churn (163 840 / 1 064 960 allocations), 0.0 vs -0.0, same-size temporary map keys')
ASSUMPTIONS = ['operations are issued where the operators issue them: read/write/delete only on added keys; add_key also on a key that is live ("repeated indices": the slot reads fresh again, which split and the window operators rely on)',
               'the order in which iterate_map / iterate enumerate is not compared (the order of groups is C04\'s subject)',
               'value alphabets of 2-3 values per type; indices {0,1,3} (plus 6 in thorough)']
LEVEL_TEXT = ('Explicit-state model checking with state hashing of the real store object against a dictionary model; finite index '
              'and value alphabets make the reachable set of the typed stores finite, so the search reaches a fixpoint and the '
              'invariant holds for operation sequences of ANY length over that alphabet, not only up to a depth.')
LEVEL_NOTE = ('Trusted: the dictionary model and the canonical form (asserted to cover vars(store)); deepcopy of the store for '
              'branching. Not covered: indices/values outside the alphabet.')
TECHNIQUE = 'explicit-state BFS with state hashing over the real MemoryStore against a dictionary model (fixpoint for typed stores)'

NOTSET = rs.state.markers.STATE_NOTSET


def is_notset(x):
    """The 'not set' marker, also after the store that holds it went through copy.deepcopy (the BFS copies stores)."""
    return x is NOTSET or type(x) is type(NOTSET)
NS = '<model: not set>'          # model-side sentinel (survives deepcopy, unlike the marker object)

TYPES = {
    'int': (int, [-1, 7], 5),
    'uint': ('uint', [0, 5], 3),
    'float': (float, [0.0, -0.0, 3, 0.1], 1.5),
    'bool': (bool, [True, False], False),
    'obj': ('obj', [None, 'x', [1]], 'dflt'),
}


def keyof(i):
    return (i,) if i != 1 else (1, (7,))      # one nested key: iterate must give the key back unchanged


def bounds(tier):
    return {'indices': [0, 1, 3] if tier == 'quick' else [0, 1, 3, 6], 'mapper_depth': 8 if tier == 'quick' else 11,
            'manager_depth': 6 if tier == 'quick' else 8, 'typed_stores': 'fixpoint'}


def units(tier):
    idx = [0, 1, 3] if tier == 'quick' else [0, 1, 3, 6]
    out = []
    for t in TYPES:
        for dflt in (False, True):
            out.append({'kind': 'typed', 'type': t, 'default': dflt, 'indices': idx, 'nvalues': 3})
    for t in TYPES:
        # a far index (array growth by many slots at once) next to index 0
        out.append({'kind': 'typed', 'type': t, 'default': t == 'uint', 'indices': [0, 9] if tier == 'quick' else [0, 9, 17], 'nvalues': 2})
        out.append({'kind': 'typed', 'type': t, 'default': False, 'indices': [130, 17] if tier == 'quick' else [130, 17, 300], 'nvalues': 2})
    out.append({'kind': 'mapper', 'indices': [0, 3], 'depth': 8 if tier == 'quick' else 11})
    out.append({'kind': 'mapper', 'indices': [1, 0], 'depth': 7 if tier == 'quick' else 10})
    # a mapper store that was (unusually) given a default value: the maps are still fresh and per index
    out.append({'kind': 'mapper', 'indices': [0, 1], 'depth': 6 if tier == 'quick' else 8, 'mapper_default': 'dict'})
    out.append({'kind': 'mapper', 'indices': [0, 1], 'depth': 5 if tier == 'quick' else 7, 'mapper_default': 'zero'})
    out.append({'kind': 'manager', 'depth': 6 if tier == 'quick' else 8})
    out.append({'kind': 'sweep', 'upto': 1700 if tier == 'quick' else 5000})
    out.append({'kind': 'churn', 'lives': 260})
    return out


def cases(unit):
    return []


# ---------------------------------------------------------------------------------------- typed stores

def new_typed(unit):
    dt, values, dflt = TYPES[unit['type']]
    store = MemoryStore(name='s', data_type=dt, default_value=dflt if unit['default'] else None)
    return store, {}


def canon_store(s):
    """Canonical form = EVERY data field of the object (generic over vars(), so a refactoring that adds or renames a
    field is automatically part of the state identity: merging stays sound without the check having to know the fields)."""
    out = []
    try:
        d = vars(s)
    except TypeError:                      # a class with __slots__
        d = {k: getattr(s, k) for c in type(s).__mro__ for k in getattr(c, '__slots__', ()) if hasattr(s, k)}
    for k in sorted(d):
        v = d[k]
        if callable(v):
            continue
        out.append((k, repr(list(v)) if hasattr(v, 'typecode') else repr(v)))
    return tuple(out)


def typed_ops(unit, model):
    dt, values, dflt = TYPES[unit['type']]
    ops = []
    for i in unit['indices']:
        ops.append(('add_key', i))
        if i in model:
            for v in values[:max(unit['nvalues'], 4 if unit['type'] == 'float' and unit['nvalues'] >= 3 else 0)]:
                ops.append(('set', i, v))
            ops.append(('del_key', i))
    return ops


def read_all(unit, store, model, problems, what):
    """abs(impl) == model: every live index reads what the model says, iterate yields exactly the live keys."""
    dt = TYPES[unit['type']][0] if unit.get('type') else None
    for i, m in model.items():
        try:
            got = store.get(keyof(i))
        except Exception as e:
            problems.append(('get-raises', what, i, repr(e)))
            continue
        want = m['value']
        try:            # the two status reads of the store, where it offers them
            if hasattr(store, 'is_set') and not unit.get('default') and bool(store.is_set(keyof(i))) != (want is not NS):
                problems.append(('is_set-disagrees-with-what-the-slot-reads', what, i, repr(store.is_set(keyof(i)))))
            if hasattr(store, 'is_cleared') and store.is_cleared(keyof(i)):
                problems.append(('live-slot-reported-as-cleared', what, i))
        except Exception as e:
            problems.append(('is_set-or-is_cleared-raises', what, i, repr(e)))
        if want is NS:
            if not is_notset(got):
                problems.append(('fresh-slot-not-reading-notset', what, i, repr(got)))
        else:
            if is_notset(got) or got != want or (isinstance(want, float) and repr(float(got)) != repr(want)):
                problems.append(('read-differs-from-last-write', what, i, repr(got), repr(want)))
            elif dt in (int, float, bool) and type(got) is not dt:
                problems.append(('read-has-wrong-type', what, i, repr(got)))
            elif dt == 'uint' and type(got) is not int:
                problems.append(('read-has-wrong-type', what, i, repr(got)))
    try:
        it = list(store.iterate())
    except Exception as e:
        problems.append(('iterate-raises', what, repr(e)))
        return
    # the ORDER in which iterate() yields the live keys is not part of the property: compare as a set
    try:
        it = sorted(it, key=lambda x: x[0][0])
    except Exception:
        problems.append(('iterate-yields-something-that-is-not-a-key', what, repr(it)[:200]))
        return
    keys = [x[0] for x in it]
    want_keys = [m['key'] for i, m in sorted(model.items())]
    if keys != want_keys:
        problems.append(('iterate-keys-differ-from-live-keys', what, repr(keys), repr(want_keys)))
    else:
        for (k, v, is_set), (i, m) in zip(it, sorted(model.items())):
            if bool(is_set) != (m['value'] is not NS):
                problems.append(('iterate-is_set-wrong', what, i))
            elif is_set and v != m['value']:
                problems.append(('iterate-value-wrong', what, i, repr(v)))


def apply_typed(unit, store, model, op):
    dt, values, dflt = TYPES[unit['type']]
    problems = []
    i = op[1]
    k = keyof(i)
    try:
        if op[0] == 'add_key':
            store.add_key(k)
            if unit['default']:
                model[i] = {'key': k, 'value': dflt}
            else:
                model[i] = {'key': k, 'value': NS}
        elif op[0] == 'set':
            v = copy.deepcopy(op[2])
            store.set(k, v)
            model[i] = {'key': k, 'value': (dt(op[2]) if dt in (int, float, bool) else copy.deepcopy(op[2]))}
        elif op[0] == 'del_key':
            store.del_key(k)
            del model[i]
    except Exception as e:
        problems.append(('operation-raises', op[0], i, repr(e)))
        return problems
    read_all(unit, store, model, problems, op[0])
    return problems


def bfs(unit, new, enabled, apply, canon_model, depth, acc):
    store, model = new(unit)
    seen = {(canon_state(store), canon_model(model))}
    frontier = deque([(store, model, [])])
    maxdepth = 0
    while frontier:
        if len(seen) > 400000:
            # a refactored store whose canonical state keeps growing would never reach a fixpoint: stop, report the cap
            acc.count('bfs_capped_at_400000_states')
            depth = 0
        store, model, hist = frontier.popleft()
        maxdepth = max(maxdepth, len(hist))
        if depth is not None and len(hist) >= depth:
            continue
        for op in enabled(unit, model):
            s2 = copy.deepcopy(store)
            m2 = copy.deepcopy(model)
            acc.events += 1
            acc.evals += 1
            acc.traces += 1
            problems = apply(unit, s2, m2, op)
            if problems:
                acc.nviol += 1
                if len(acc.violations) < 20:
                    case = {'unit': unit, 'ops': [list(o) for o in hist + [op]]}
                    acc.violations.append({'signature': sig(unit, problems[0]), 'size': len(hist) + 1, 'case': case,
                                           'detail': {'problems': [list(map(str, p)) for p in problems[:5]]}})
                continue
            c = (canon_state(s2), canon_model(m2))
            if c not in seen:
                seen.add(c)
                frontier.append((s2, m2, hist + [op]))
                if len(m2) >= 2 if isinstance(m2, dict) else True:
                    acc.nontrivial.add(fast_hash(repr((unit.get('type'), unit.get('default'), unit['kind'], c))))
    for c in seen:
        acc.states.add(fast_hash(repr((unit.get('type'), unit.get('default'), unit['kind'], unit.get('indices'), c))))
    acc.count('bfs_max_depth_' + unit['kind'], 0)
    acc.counters['max_depth_' + unit['kind']] = max(acc.counters.get('max_depth_' + unit['kind'], 0), maxdepth)
    if depth is None:
        acc.count('fixpoints_reached')
    if len(acc.samples) < 2 and frontier is not None:
        acc.samples.append({'unit': unit, 'states': len(seen), 'max_depth': maxdepth})
    return len(seen)


def canon_state(s):
    if isinstance(s, MemoryStore):
        return canon_store(s)
    # StoreManager: every MemoryStore of every partition store, plus its own scalar fields
    parts = []
    for st in getattr(s, 'states', []) or []:
        parts.append(tuple(canon_store(x) for x in getattr(st, 'states', [])))
    scalars = tuple(sorted((k, repr(v)) for k, v in vars(s).items() if isinstance(v, (int, str, type(None), bool, float))))
    return (scalars, tuple(parts))


def sig(unit, problem):
    return 'C14|%s|%s%s|%s' % (unit['kind'], unit.get('type', ''), '+default' if unit.get('default') else '', problem[0])


def canon_typed_model(model):
    return repr(sorted((i, m['key'], repr(m['value'])) for i, m in model.items()))


# ---------------------------------------------------------------------------------------- mapper

NAMES = ('a', 'big', 'big2', 'tup')


def _mk(name):
    if name == 'big':
        return 10 ** 20 + 0 * len(name)     # equal, never identical
    if name == 'big2':
        return 10 ** 20 + 1 + 0 * len(name)   # a second temporary of the same size (may reuse the first one's address)
    if name == 'tup':
        return tuple([1, 'x'])
    return ''.join(['a'])


def new_mapper(unit):
    kw = {}
    if unit.get('mapper_default'):
        kw['default_value'] = {} if unit['mapper_default'] == 'dict' else 0
    return MemoryStore(name='m', data_type='mapper', **kw), {'live': {}, 'handed': []}


def mapper_ops(unit, model):
    ops = []
    for i in unit['indices']:
        if i not in model['live']:
            ops.append(('add_key', i))
        else:
            for mk in NAMES:
                if mk not in model['live'][i]:
                    ops.append(('add_map', i, mk))
            ops.append(('complete', i))
    return ops


def apply_mapper(unit, store, model, op):
    problems = []
    i = op[1]
    k = keyof(i)
    live = model['live']
    try:
        if op[0] == 'add_key':
            store.add_key(k)
            live[i] = {}
        elif op[0] == 'add_map':
            if not is_notset(store.get_map(k, _mk(op[2]))):
                problems.append(('get_map-finds-unmapped-key', i, op[2]))
            idx = store.add_map(k, _mk(op[2]))
            in_use = set(v for m in live.values() for v in m.values())
            if idx in in_use:
                problems.append(('add_map-returns-index-still-in-use', i, op[2], idx))
            live[i][op[2]] = idx
        elif op[0] == 'complete':       # what group_by does when a parent key completes
            for mk in list(store.iterate_map(k)):
                store.get_map(k, mk)
                store.del_map(k, mk)
            store.del_key(k)
            del live[i]
    except Exception as e:
        problems.append(('operation-raises', op[0], i, repr(e)))
        return problems
    for j, m in live.items():
        try:
            got = sorted(store.iterate_map(keyof(j)), key=repr)        # exactly the mapped keys, once each; their order is C04's subject
            want = sorted((_mk(n) for n in m), key=repr)
            if got != want:
                problems.append(('iterate_map-differs-from-mapped-keys', j, repr(got), repr(want)))
            for n, idx in m.items():
                r = store.get_map(keyof(j), _mk(n))
                if is_notset(r) or r != idx:
                    problems.append(('get_map-differs-from-add_map', j, n, repr(r), idx))
                # an unmapped key looked up right after a mapped one (temporaries of the same size)
                for u in NAMES:
                    if u not in m and not is_notset(store.get_map(keyof(j), _mk(u))):
                        problems.append(('get_map-finds-unmapped-key', j, u))
            for n in NAMES:
                if n not in m and not is_notset(store.get_map(keyof(j), _mk(n))):
                    problems.append(('get_map-finds-unmapped-key', j, n))
        except Exception as e:
            problems.append(('read-raises', j, repr(e)))
    return problems


def canon_mapper_model(model):
    return repr(sorted((i, sorted(m.items())) for i, m in model['live'].items()))


# ---------------------------------------------------------------------------------------- StoreManager product

def new_manager(unit):
    topo = StateTopology()
    topo.create_state('a', int, -1)
    topo.create_state('b', 'obj')
    topo.create_mapper('c')
    sm = StoreManager(store_factory=MemoryStore)
    sm.set_topology(topo)
    return sm, {0: {}, 1: {}, 2: {}}


def manager_ops(unit, model):
    ops = []
    for st in (0, 1, 2):
        for i in (0, 2):
            if i not in model[st]:
                ops.append(('add_key', st, i))
            else:
                if st == 0:
                    ops.append(('set', st, i, 7))
                elif st == 1:
                    ops.append(('set', st, i, 'x'))
                    ops.append(('set', st, i, None))          # None is a value like any other, not 'not set'
                elif 'a' not in model[st][i]:
                    ops.append(('add_map', st, i))
                if st == 2:
                    ops.append(('complete', st, i))
                    ops.append(('del_key', st, i))          # a mapper key dropped without unmapping its names first
                else:
                    ops.append(('del_key', st, i))
    return ops


def apply_manager(unit, sm, model, op):
    problems = []
    st, i = op[1], op[2]
    k = (i,)
    try:
        if op[0] == 'add_key':
            sm.add_key(st, k)
            model[st][i] = {} if st == 2 else (-1 if st == 0 else NS)
        elif op[0] == 'set':
            sm.set_state(st, k, op[3])
            model[st][i] = op[3]
        elif op[0] == 'add_map':
            model[st][i]['a'] = sm.add_map(st, k, 'a')
        elif op[0] == 'del_key':
            sm.del_key(st, k)
            del model[st][i]
        elif op[0] == 'complete':
            mks = list(sm.iterate_map(st, k))
            if sorted(mks, key=repr) != sorted(model[st][i], key=repr):
                problems.append(('manager-iterate_map-differs', i, repr(mks)))
            for mk in mks:
                if sm.get_map(st, k, mk) != model[st][i][mk]:
                    problems.append(('manager-get_map-differs', i, mk))
                sm.del_map(st, k, mk)
            sm.del_key(st, k)
            del model[st][i]
    except Exception as e:
        problems.append(('operation-raises', op[0], st, i, repr(e)))
        return problems
    for s in (0, 1):
        try:
            it = sorted(x[0] for x in sm.iterate_state(s))
            if it != [(j,) for j in sorted(model[s])]:
                problems.append(('manager-iterate_state-differs-from-live-keys', s, repr(it)))
        except Exception as e:
            problems.append(('manager-iterate_state-raises', s, repr(e)))
        for j, v in model[s].items():
            got = sm.get_state(s, (j,))
            if (v is NS) != is_notset(got) or (v is not NS and got != v):
                problems.append(('state-%d-disturbed-by-operation-on-state-%d' % (s, st), j, repr(got), repr(v)))
    for j, m in model[2].items():
        for n, idx in m.items():
            if sm.get_map(2, (j,), n) != idx:
                problems.append(('mapper-state-disturbed', j))
        if 'a' not in m and not is_notset(sm.get_map(2, (j,), 'a')):
            problems.append(('name-that-is-not-mapped-reads-as-mapped', j, repr(sm.get_map(2, (j,), 'a'))))
        try:
            if sorted(sm.iterate_map(2, (j,)), key=repr) != sorted(m, key=repr):
                problems.append(('manager-iterate_map-differs', j, repr(list(sm.iterate_map(2, (j,))))))
        except Exception as e:
            problems.append(('manager-iterate_map-raises', j, repr(e)))
    return problems


def run_sweep(unit, acc):
    """One live slot at index i, for every i up to the bound (sparse stores of every size): it reads not-set, then the written
    value, iterate() yields exactly it, and an added / deleted neighbour at i-1 does not disturb it."""
    for i in range(unit['upto']):
        for dt, dflt in ((int, None), ('obj', None), (bool, False)):
            s = MemoryStore(name='s', data_type=dt, default_value=dflt)
            problems = []
            try:
                s.add_key((i,))
                got = s.get((i,))
                if (dflt is None and not is_notset(got)) or (dflt is not None and got != dflt):
                    problems.append(('fresh-slot-not-reading-notset', i, repr(got)))
                s.set((i,), True if dt is bool else 7)
                if i > 0:
                    s.add_key((i - 1,))
                    s.del_key((i - 1,))
                if s.get((i,)) != (True if dt is bool else 7):
                    problems.append(('read-differs-from-last-write', i, repr(s.get((i,)))))
                keys = sorted(x[0] for x in s.iterate())
                if keys != [(i,)]:
                    problems.append(('iterate-keys-differ-from-live-keys', i, repr(keys)[:100]))
            except Exception as e:
                problems.append(('operation-raises', i, repr(e)))
            acc.evals += 1
            acc.events += 5
            acc.traces += 1
            if problems:
                acc.nviol += 1
                if len(acc.violations) < 5:
                    acc.violations.append({'signature': 'C14|sweep|%s|%s' % (getattr(dt, '__name__', dt), problems[0][0]), 'size': i,
                                           'case': {'unit': {'kind': 'sweep1', 'index': i}, 'ops': []},
                                           'detail': {'problems': [list(map(str, p)) for p in problems]}})
                return
    acc.count('sweep_indices', unit['upto'])
    acc.states.add(fast_hash(('sweep', unit['upto'])))


def run_churn(unit, acc, report=True):
    """The group-index allocator under churn: three groups stay mapped under key 0 while key 3 goes through many lives of 4096
    groups each (more than 2^20 allocations in the thorough tier); no index handed out may equal one still in use."""
    s = MemoryStore(name='m', data_type='mapper')
    s.add_key((0,))
    held = set(s.add_map((0,), 'h%d' % j) for j in range(3))
    n = 0
    bad = None
    for life in range(unit['lives']):
        s.add_key((3,))
        mine = set()
        for j in range(4096):
            idx = s.add_map((3,), j)
            n += 1
            if idx in held or idx in mine:
                bad = (n, idx)
                break
            mine.add(idx)
        if bad:
            break
        for mk in list(s.iterate_map((3,))):
            s.del_map((3,), mk)
        s.del_key((3,))
    acc.evals += 1
    acc.events += n
    acc.traces += 1
    acc.count('allocations_under_churn', n)
    if bad:
        acc.nviol += 1
        acc.violations.append({'signature': 'C14|churn||add_map-returns-index-still-in-use', 'size': unit['lives'],
                               'case': {'unit': {'kind': 'churn1', 'lives': unit['lives']}, 'ops': []},
                               'detail': {'allocation_number': bad[0], 'index': bad[1]}})


def run_unit(unit, acc):
    if unit['kind'] == 'sweep':
        acc.cases += 1
        return run_sweep(unit, acc)
    if unit['kind'] == 'churn':
        acc.cases += 1
        return run_churn(unit, acc)
    if unit['kind'] == 'typed':
        bfs(unit, new_typed, typed_ops, apply_typed, canon_typed_model, None, acc)
    elif unit['kind'] == 'mapper':
        bfs(unit, new_mapper, mapper_ops, apply_mapper, canon_mapper_model, unit['depth'], acc)
    else:
        bfs(unit, new_manager, manager_ops, apply_manager, lambda m: repr(sorted((s, sorted((i, repr(v)) for i, v in d.items())) for s, d in m.items())),
            unit['depth'], acc)
    acc.cases += 1


def run_case(case, acc):
    """Replay one recorded operation history on a fresh store."""
    unit = case['unit']
    kind = unit['kind']
    if kind in ('sweep1', 'churn1'):
        sub = Acc2()
        if kind == 'sweep1':
            run_sweep({'upto': unit['index'] + 1}, sub)
        else:
            run_churn({'lives': unit['lives']}, sub)
        return [{'signature': v['signature'], 'detail': v['detail']} for v in sub.violations]
    new, apply = {'typed': (new_typed, apply_typed), 'mapper': (new_mapper, apply_mapper), 'manager': (new_manager, apply_manager)}[kind]
    store, model = new(unit)
    for op in case['ops']:
        problems = apply(unit, store, model, tuple(op))
        if problems:
            return [{'signature': sig(unit, problems[0]), 'detail': {'problems': [list(map(str, p)) for p in problems[:5]], 'ops': case['ops']}}]
    return []


class Acc2(object):
    """Minimal accumulator for replaying the sweep / churn probes."""

    def __init__(self):
        self.evals = self.events = self.traces = self.nviol = self.cases = 0
        self.violations = []
        self.counters = {}
        self.states = set()

    def count(self, name, n=1):
        self.counters[name] = self.counters.get(name, 0) + n


def guards(acc, tier):
    msgs = []
    if acc.counters.get('fixpoints_reached', 0) + acc.counters.get('bfs_capped_at_400000_states', 0) < 20:
        msgs.append('fewer than 20 typed-store fixpoints reached')
    if len(acc.states) < 500:
        msgs.append('fewer than 500 distinct states')
    return msgs
