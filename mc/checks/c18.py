"""C18 - CSV dump/load round-trips typed rows."""
import itertools
import math
import os
import shutil
import tempfile
import zlib
from collections import namedtuple

import rx
import rxsci.container.csv as rscsv

from .. import spaces
from ..bytelevel import RawSink, Device, twice
from ..engine import fast_hash

ID = 'C18'
TITLE = 'CSV dump/load round-trips typed rows'
LEVEL = 'exploration'
RULE = ('every string of length <= 3 (4 in thorough) over {a, separator, double quote, escape character, blank} in every column position '
        'of 1-, 2- and 3-column rows x separators {",", ";", "|", tab, "::"} x escape characters {backslash, ^}; ints {0, -1, 2^63, '
        '-2^63-1}, bools, a 30-value alphabet of str()-printable doubles (negative, -0.0, subnormal, max, exponent forms, 17-digit '
        'values) plus every k/1000 for k in -20000..20000; mixed typed rows; dump_to_file/load_from_file (utf-8) through an '
        'in-memory device with every read schedule of <= 2 short reads, and through real files whose 64 KiB boundary slides across '
        'a row containing separator, quote and escape. Each case: real dump -> real load with the matching schema, compared field by '
        'field (copysign for the sign of zero). Non-trivial = distinct row whose string contains a special character or whose number '
        'is negative/fractional.')
DEEP_PROBES = ('dump_to_file and load_from_file observables subscribed twice (custom open_obj: same bytes written again, same items loaded again); 400 rows in one stream; strings that look like numbers / booleans; a field with 5 000 separators; a 140 000 character row; non-ASCII characters slid across the 64 KiB read boundary')
ASSUMPTIONS = ['strings contain no newline (stated); floats are those printable by str()', 'values outside the alphabets are not covered']
LEVEL_TEXT = ('Exhaustive small-scope exploration of the input/configuration grid of the real dump/load pair; the parser has no '
              'state across rows, so the space is a grid of rows and configurations rather than histories.')
LEVEL_NOTE = 'Trusted: Python equality per field, math.copysign for signed zero.'
TECHNIQUE = 'bounded-exhaustive input/configuration grid exploration of the real dump/load round trip'

SEPS = [',', ';', '|', '\t', '::']
ESCS = ['\\', '^']
FLOATS = [0.0, -0.0, 1.0, -1.0, 0.5, -0.5, -1.5, 1.5, 0.1, -0.1, 3.14159, -2.718281828459045, 1e-7, -1e-7, 1e22, 1e21, 1.7976931348623157e308,
          5e-324, 2.2250738585072014e-308, 123456789.125, 0.30000000000000004, 1.118, 1e16, 1e15, 123456.789, -99999.999, 2.5e-5, 1e100,
          9007199254740993.0, 0.001]
INTS = [0, -1, 7, 2 ** 63, -2 ** 63 - 1]


def bounds(tier):
    return {'string_len': 3 if tier == 'quick' else 5, 'separators': SEPS, 'escapechars': ESCS, 'decimals': '[-20000..20000]/1000',
            'float_alphabet': len(FLOATS)}


def units(tier):
    out = []
    L = 3 if tier == 'quick' else 5
    for sep in SEPS:
        for esc in ESCS:
            for cols in (1, 2, 3):
                out.append({'fam': 'str', 'sep': sep, 'esc': esc, 'cols': cols, 'L': L})
    for part in spaces.shard(list(range(-20000, 20001)), 16):
        out.append({'fam': 'dec', 'range': [part[0], part[-1] + 1]})
    out.append({'fam': 'num'})
    for sep in SEPS:
        out.append({'fam': 'mixed', 'sep': sep})
    out.append({'fam': 'device'})
    out.append({'fam': 'file'})
    return out


def cases(unit):
    if unit['fam'] == 'str':
        yield dict(unit)
    elif unit['fam'] == 'dec':
        a, b = unit['range']
        yield {'fam': 'dec', 'range': [a, b]}
    elif unit['fam'] == 'file':
        for off in range(-22, 4):
            yield {'fam': 'file', 'offset': off}
    else:
        yield dict(unit)


def viol(fam, sym, detail):
    return {'signature': 'C18|%s|%s' % (fam, sym), 'detail': detail}


import typing


class TypedRow(typing.NamedTuple):
    c0: int
    c1: str
    c2: float
    c3: bool


def roundtrip(rows, types, sep=',', esc='\\'):
    """rows: list of tuples; returns (loaded rows as tuples, error)."""
    names = ['c%d' % i for i in range(len(types))]
    Row = namedtuple('Row', names)
    sink = RawSink()
    if types == [int, str, float, bool] and len(rows) % 2 == 1:
        # the schema given as a typing.NamedTuple class (the other documented form of dtype)
        Row = TypedRow
        parser = rscsv.create_line_parser(dtype=TypedRow, separator=sep, escapechar=esc)
    else:
        parser = rscsv.create_line_parser(dtype=[(n, t) for n, t in zip(names, types)], separator=sep, escapechar=esc)
    # the calling convention varies with the input (all three are the same call according to the documented signatures):
    # keywords / every argument positional / keywords with ignore_error=True (valid lines must not be affected by it)
    dump_op = rscsv.dump(separator=sep, escapechar=esc)
    mode = zlib.crc32(repr(rows).encode()) % 3
    if mode == 1:
        dump_op = rscsv.dump(True, sep, esc, '\n')
        if Row is not TypedRow:
            parser = rscsv.create_line_parser([(n, t) for n, t in zip(names, types)], [], sep, esc, False)
    elif mode == 2 and Row is not TypedRow:
        parser = rscsv.create_line_parser(dtype=[(n, t) for n, t in zip(names, types)], separator=sep, escapechar=esc, ignore_error=True)
    sink = twice(rx.from_([Row(*r) for r in rows]).pipe(
        dump_op,
        rx.operators.map(lambda l: l[:-1] if l.endswith('\n') else l),
        rscsv.load(parser),
    ), len(rows), limit=2)       # one- and two-row inputs are subscribed a second time (header and parser state are per subscription)
    return [tuple(r) for r in sink.items], sink.error, sink.completed


def same(a, b):
    if type(a) is float and type(b) is float:
        return a == b and math.copysign(1, a) == math.copysign(1, b)
    return type(a) is type(b) and a == b


def compare(rows, got):
    if len(rows) != len(got):
        return 'row-count', None
    for i, (r, g) in enumerate(zip(rows, got)):
        if len(r) != len(g):
            return 'column-count', i
        for a, b in zip(r, g):
            if not same(a, b):
                return 'field', i
    return None, None


def classify_str(s, sep, esc):
    feats = []
    if sep in s:
        feats.append('separator')
    if '"' in s:
        feats.append('quote')
    if esc in s:
        feats.append('escape')
    if s.endswith(esc):
        feats.append('trailing-escape')
    if s != s.strip():
        feats.append('blank')
    return '+'.join(feats) or 'plain'


def classify_float(x, y):
    if x < 0 and y is not None and isinstance(y, float) and abs(y) != abs(x) and abs(abs(y) - abs(x)) > 1e-9 * max(1, abs(x)):
        return 'negative-decimal-wrong-value'
    if x < 0 and isinstance(y, float) and y == -x:
        return 'sign-lost'
    if isinstance(y, float) and x != 0 and abs(y - x) <= 4 * abs(x) * 2.0 ** -52:
        return 'decimal-not-exact-double-rounding'
    if isinstance(y, float) and math.copysign(1, x) != math.copysign(1, y):
        return 'sign-of-zero-lost' if x == 0 else 'sign-lost'
    return 'float-wrong-value'


def run_case(case, acc):
    fam = case['fam']
    out = []
    seen = set()

    def report(sym, detail):
        if sym not in seen:
            seen.add(sym)
            out.append(viol(fam, sym, detail))

    if fam == 'str':
        sep, esc, cols = case['sep'], case['esc'], case['cols']
        alpha = ['a', sep, '"', esc, ' ']
        strings = [''.join(t) for n in range(0, case['L'] + 1) for t in itertools.product(alpha, repeat=n)]
        fill = ['x', 'y z']
        for s in strings:
            for p in range(cols):
                row = tuple(s if c == p else fill[c % 2] for c in range(cols))
                rows = [row, tuple(fill[0] for _ in range(cols))]
                got, err, comp = roundtrip(rows, [str] * cols, sep, esc)
                acc.evals += 1
                acc.count('rows')
                if err is not None or comp != 1:
                    report('string-%s-load-error' % classify_str(s, sep, esc),
                           {'separator': sep, 'escapechar': esc, 'row': row, 'error': repr(err)})
                else:
                    kind, i = compare(rows, got)
                    if kind:
                        report('string-%s-%s-differs' % (classify_str(s, sep, esc), kind),
                               {'separator': sep, 'escapechar': esc, 'row': row, 'loaded': got})
                if classify_str(s, sep, esc) != 'plain':
                    acc.nontrivial.add(fast_hash((sep, esc, cols, p, s)))
        acc.outcomes.add(fast_hash((sep, esc, cols)))
        return out
    if fam == 'dec':
        a, b = case['range']
        vals = [k / 1000 for k in range(a, b)]
        rows = [(v,) for v in vals]
        got, err, comp = roundtrip(rows, [float])
        acc.evals += len(rows)
        if err is not None or comp != 1 or len(got) != len(rows):
            report('decimal-load-error', {'range': [a, b], 'error': repr(err)})
        else:
            for r, g in zip(rows, got):
                if not same(r[0], g[0]):
                    report(classify_float(r[0], g[0]), {'written': repr(r[0]), 'text': str(r[0]), 'loaded': repr(g[0])})
                if r[0] < 0 or r[0] != int(r[0]):
                    acc.nontrivial.add(fast_hash(('dec', r[0])))
        acc.outcomes.add(fast_hash(('dec', a)))
        return out
    if fam == 'num':
        for x in FLOATS:
            got, err, comp = roundtrip([(x,), (1.0,)], [float])
            acc.evals += 1
            if err is not None or comp != 1 or len(got) != 2:
                report('float-load-error', {'value': repr(x), 'text': str(x), 'error': repr(err)})
            elif not same(x, got[0][0]):
                report(classify_float(x, got[0][0]), {'written': repr(x), 'text': str(x), 'loaded': repr(got[0][0])})
            acc.nontrivial.add(fast_hash(('f', repr(x))))
        for x in INTS:
            got, err, comp = roundtrip([(x,)], [int])
            acc.evals += 1
            if err is not None or not got or not same(x, got[0][0]):
                report('int-differs', {'written': x, 'loaded': got, 'error': repr(err)})
            acc.nontrivial.add(fast_hash(('i', x)))
        for x in (True, False):
            got, err, comp = roundtrip([(x,), (not x,)], [bool])
            acc.evals += 1
            if err is not None or len(got) != 2 or got[0][0] is not x:
                report('bool-differs', {'written': x, 'loaded': got, 'error': repr(err)})
        return out
    if fam == 'mixed':
        sep = case['sep']
        # strings that look like the printed form of other column values; a field with thousands of separators
        for srow in ((12, '12', 0.5, True), (1, 'True', 12.0, False), (0, '0.5', 0.5, True), (5, '5', 5.0, True), (7, 'False', 1.5, False)):
            rows = [srow, (12, 'x', 0.5, True), srow]
            got, err, comp = roundtrip(rows, [int, str, float, bool], sep)
            acc.evals += 1
            if err is not None or comp != 1 or compare(rows, got)[0]:
                report('number-like-string-differs', {'separator': sep, 'row': srow, 'loaded': got, 'error': repr(err)})
        big = sep.join(['v'] * 5000)
        for rows in ([(1, big, 2.5, True), (2, 'y', 1.0, False)], [(big, 1)], [(1, big)]):
            types = [int, str, float, bool] if len(rows[0]) == 4 else [type(v) for v in rows[0]]
            got, err, comp = roundtrip(rows, types, sep)
            acc.evals += 1
            if err is not None or comp != 1 or compare(rows, got)[0]:
                report('field-with-thousands-of-separators-differs', {'separator': sep, 'columns': len(rows[0]), 'error': repr(err)})
    if fam == 'mixed' and case['sep'] == ',':
        # several hundred rows in one stream, long strings with specials
        rows = [(i - 150, ('s,"\\' * (i % 5)) + 'x' * (i % 300), (i - 150) / 8, i % 2 == 0) for i in range(400)]
        got, err, comp = roundtrip(rows, [int, str, float, bool])
        acc.evals += 1
        if err is not None or comp != 1:
            report('many-rows-load-error', {'error': repr(err)})
        elif compare(rows, got)[0]:
            k, i = compare(rows, got)
            report('many-rows-differ', {'kind': k, 'row': i})
    if fam == 'mixed':
        sep = case['sep']
        strs = ['', 'a', 'a%sb' % sep, 'q"', ' lead', 'trail ', 'e\\', '%s' % sep, '"%s"' % sep]
        n = 0
        for ncols in (4, 8):
            for s, i, f, b in itertools.product(strs, [0, -7], [0.5, 2.0], [True, False]):
                row = (i, s, f, b) if ncols == 4 else (i, s, f, b, s, i, f, 'z')
                types = [int, str, float, bool] if ncols == 4 else [int, str, float, bool, str, int, float, str]
                got, err, comp = roundtrip([row, row], types, sep)
                acc.evals += 1
                n += 1
                if err is not None or comp != 1:
                    report('mixed-row-load-error', {'separator': sep, 'row': row, 'error': repr(err)})
                elif compare([row, row], got)[0]:
                    report('mixed-row-differs', {'separator': sep, 'row': row, 'loaded': got})
                acc.nontrivial.add(fast_hash((sep, row)))
        return out
    if fam == 'device':
        return run_device(case, acc, report, out)
    return run_file(case, acc, report, out)


Row3 = namedtuple('Row3', ['i', 's', 'f'])


def _file_rows():
    return [Row3(1, 'a,b', 0.5), Row3(-2, 'q"uote', 2.0), Row3(3, 'e\\\\', 1.25), Row3(4, '', 8.0)]


def run_device(case, acc, report, out):
    rows = _file_rows()
    dev = Device()
    s = RawSink()
    s.subscribe_to(rx.from_(rows).pipe(rscsv.dump_to_file(dev, encoding='utf-8')))
    data = dev.content()
    if s.error is not None:
        report('dump_to_file-error', {'error': repr(s.error)})
        return out
    text = data.decode('utf-8') if isinstance(data, (bytes, bytearray)) else data        # the file object may be written as bytes or as text
    data = text.encode('utf-8')
    parser = lambda: rscsv.create_line_parser(dtype=[('i', int), ('s', str), ('f', float)])
    # the same dump / load observables subscribed a second time: the same bytes are written again, the same rows loaded again
    devs = []

    def opener(f, mode, encoding=None, **kw):
        devs.append(Device() if 'w' in mode else Device(data if 'b' in mode else text))      # text or binary, as asked for
        return devs[-1]
    dump_obs = rx.from_(rows).pipe(rscsv.dump_to_file('nowhere/f.csv', encoding='utf-8', open_obj=opener))
    for _ in (1, 2):
        RawSink().subscribe_to(dump_obs)
    as_bytes = lambda c: c.encode('utf-8') if isinstance(c, str) else c
    if len(devs) != 2 or as_bytes(devs[0].content()) != data or as_bytes(devs[1].content()) != data:
        report('second-subscription-of-dump_to_file-writes-other-bytes', {'first': repr(devs[0].content() if devs else None)[:200],
                                                                         'second': repr(devs[1].content() if len(devs) > 1 else None)[:200]})
    load_obs = rscsv.load_from_file('nowhere/f.csv', parser(), open_obj=opener)
    for n_sub in (1, 2):
        r = RawSink()
        r.subscribe_to(load_obs)
        if r.error is not None or [tuple(x) for x in r.items] != [tuple(x) for x in rows]:
            report('subscription-%d-of-load_from_file-differs' % n_sub, {'loaded': [tuple(x) for x in r.items], 'error': repr(r.error)})
    acc.evals += 4
    acc.count('second_subscriptions')
    L = len(text)
    scheds = [[]] + [[p] for p in range(1, L)] + [[p, q - p] for p in range(1, L) for q in range(p + 1, L)]
    for sched in scheds:
        d = Device(text, sched)
        r = RawSink()
        r.subscribe_to(rscsv.load_from_file(d, parser()))
        acc.evals += 1
        if r.error is not None or r.completed != 1:
            report('load_from_file-error', {'read_schedule': sched, 'error': repr(r.error)})
            break
        if [tuple(x) for x in r.items] != [tuple(x) for x in rows]:
            report('load_from_file-rows-differ', {'read_schedule': sched, 'loaded': [tuple(x) for x in r.items]})
            break
        if sched:
            acc.nontrivial.add(fast_hash(('dev', tuple(sched))))
    acc.count('read_schedules', len(scheds))
    return out


def run_file(case, acc, report, out):
    off = case['offset']
    d = tempfile.mkdtemp(prefix='c18-')
    try:
        path = os.path.join(d, 'f.csv')
        special = Row3(5, '\u00e9\u20ac\U0001F600,"\\y', -0.25)
        head = 'i,s,f\n'
        first_len = 64 * 1024 - len(head) + off
        pad = Row3(0, 'p' * (first_len - len('0,"",1.0\n')), 1.0)      # the 64 KiB boundary falls -off bytes into the second row
        rows = [pad, special, Row3(6, 'z', 3.0)]
        if off == 0:
            rows.append(Row3(7, 'w' * 140000, 4.0))       # one row covering more than two whole read chunks
        s = RawSink()
        s.subscribe_to(rx.from_(rows).pipe(rscsv.dump_to_file(path, encoding='utf-8')))
        if s.error is not None:
            report('dump_to_file-error', {'error': repr(s.error)})
            return out
        r = RawSink()
        r.subscribe_to(rscsv.load_from_file(path, rscsv.create_line_parser(dtype=[('i', int), ('s', str), ('f', float)]), encoding='utf-8'))
        acc.evals += 1
        if r.error is not None or r.completed != 1:
            report('real-file-load-error', {'offset': off, 'error': repr(r.error)})
        elif [tuple(x) for x in r.items] != [tuple(x) for x in rows]:
            report('real-file-rows-differ', {'offset': off, 'loaded': [tuple(x)[:1] + (len(x[1]),) + tuple(x)[2:] for x in r.items]})
        acc.count('real_files')
        acc.nontrivial.add(fast_hash(('file', off)))
    finally:
        shutil.rmtree(d, ignore_errors=True)
    return out


def guards(acc, tier):
    msgs = []
    if acc.counters.get('real_files', 0) < 10:
        msgs.append('fewer than 10 real files')
    if acc.counters.get('rows', 0) < 5000:
        msgs.append('fewer than 5000 string rows')
    return msgs
