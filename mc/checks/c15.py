"""C15 - framing round-trips under any re-chunking of the framed stream."""
import itertools

import rxsci.framing.line as line
import rxsci.framing.length_prefix as lp

from .. import spaces
from ..bytelevel import run, with_empty_chunks, chunkings
from ..engine import fast_hash

ID = 'C15'
TITLE = 'Framing round-trips under any re-chunking of the framed stream'
LEVEL = 'model_checking'
RULE = ('item lists up to the length bound over an alphabet with empty items and items that contain the other framing\'s bytes; line '
        'framing and length-prefix framing with prefix sizes 1/2/4/8 x both byte orders; the framed stream produced by the real '
        'frame() is cut in EVERY way (all 2^(L-1) cut sets for streams up to 13 units, otherwise every chunking with <= 2 cuts), '
        'each also with empty chunks interleaved, and fed to the real unframe(); plus an unterminated trailing line and EVERY '
        'truncation point of a length-prefixed stream. Non-trivial = chunking with a cut inside a prefix or a payload; states = '
        'distinct (configuration, position of a cut inside the frame structure) situations.')
DEEP_PROBES = ('items ending in CR; the longest encodable payload for prefix sizes 1 and 2; 70 000 / 65 536 character lines; a line arriving in 1 500 one-character chunks; a payload beyond 64 KiB followed by small frames; the same unframe observable subscribed twice')
ASSUMPTIONS = ['line items contain no newline (line framing cannot carry one)', 'streams longer than 13 units: at most 2 cuts']
LEVEL_TEXT = ('Bounded-exhaustive model checking over the schedule dimension: every way of cutting the framed stream into chunks '
              '(the carry-over buffer is the operator\'s only state) for all short item lists and all prefix configurations.')
LEVEL_NOTE = 'Trusted: list equality of items; the frame() output is taken from the real code.'
TECHNIQUE = 'stateless bounded-exhaustive exploration of all chunk schedules against the identity round-trip'

LINE_ALPHA = ['', 'a', 'bc', '\x02\x00\x00\x00ab', 'c\r', '\r', 'u\u2028v\x85\x0b\x0c\x1c']      # last: what str.splitlines() would break on
LP_ALPHA = [b'', b'a', b'bc', b'x\ny']


def bounds(tier):
    return {'max_items': 3 if tier == 'quick' else 4, 'full_chunking_up_to': 13, 'otherwise_max_cuts': 2}


def units(tier):
    L = 3 if tier == 'quick' else 4
    out = [{'fam': 'line', 'L': L, 'shard': [i, 12]} for i in range(12)]
    out.append({'fam': 'lpmax'})
    for size in (1, 2, 4, 8):
        for order in ('little', 'big'):
            for sh in range(4):
                out.append({'fam': 'lp', 'size': size, 'order': order, 'L': L if size <= 2 else min(L, 3), 'shard': [sh, 4]})
    return out


def cases(unit):
    if unit['fam'] == 'lpmax':
        yield {'fam': 'longline'}
        # the longest payload a prefix can announce (and its neighbours)
        for size, n in ((1, 254), (1, 255), (2, 65534), (2, 65535)):
            for order in ('little', 'big'):
                yield {'fam': 'lpmax', 'size': size, 'order': order, 'n': n}
        return
    if unit['fam'] == 'line':
        sh, n = unit['shard']
        for i, items in enumerate(spaces.sequences(LINE_ALPHA, unit['L'])):
            if i % n == sh:
                yield {'fam': 'line', 'items': items, 'tail': ''}
                yield {'fam': 'line', 'items': items, 'tail': 'xy'}
                if len(items) <= 2:
                    yield {'fam': 'line', 'items': items, 'tail': 'z'}          # a trailing unterminated line of ONE character
    else:
        sh, n = unit['shard']
        for i, items in enumerate(spaces.sequences(range(len(LP_ALPHA)), unit['L'])):
            if i % n == sh:
                yield {'fam': 'lp', 'size': unit['size'], 'order': unit['order'], 'items': list(items)}


def viol(fam, sym, detail):
    return {'signature': 'C15|%s|%s' % (fam, sym), 'detail': detail}


def run_case(case, acc):
    out = []
    if case['fam'] == 'longline':
        items = ['x' * 70000, '', 'y' * 65536, 'z']
        framed = ''.join(run([line.frame()], items).items)
        for step in (65536, 4096, 70001, 1000):
            chunks = [framed[i:i + step] for i in range(0, len(framed), step)]
            sink = run([line.unframe()], chunks)
            acc.evals += 1
            acc.traces += 1
            if sink.error is not None or sink.items != items:
                return [viol('line', 'long-items-differ', {'chunk_size': step, 'observed_lengths': [len(x) for x in sink.items], 'error': repr(sink.error)})]
        # a line that arrives in far more than a thousand pieces (one character per chunk)
        item = ''.join(chr(97 + i % 26) for i in range(1500))
        sink = run([line.unframe()], list(item) + ['\n', 'tail'])
        acc.evals += 1
        if sink.error is not None or sink.items != [item, 'tail']:
            return [viol('line', 'line-in-many-pieces-differs', {'observed_lengths': [len(x) for x in sink.items], 'error': repr(sink.error)})]
        # length-prefix: a payload beyond 64 KiB followed by small frames, cut inside the payload and at / just after its end
        for size, order in ((4, 'little'), (8, 'big')):
            its = [b'ab', bytes(range(256)) * 274, b'c', b'', b'defg', b'h']
            fr = b''.join(run([lp.frame(size, order)], its).items)
            end_big = (size + 2) + (size + len(its[1]))
            for cuts in ((size + 10, end_big), (size + 70000, end_big + 1), (end_big - 1, end_big + size - 1), (3, end_big, end_big + size + 1),
                         (size + 2 + size + 65536, end_big)):
                sink = run([lp.unframe(size, order)], spaces.chunk(fr, cuts))
                acc.evals += 1
                acc.traces += 1
                if sink.error is not None or sink.items != its:
                    return [viol('length_prefix', 'big-frame-then-small-frames-differ', {'prefix': [size, order], 'cuts': list(cuts),
                                                                                      'observed_lengths': [len(x) for x in sink.items]})]
        # the same unframe observable subscribed twice; the first stream ends inside a frame
        import rx
        for mk, chunks, want in ((lambda: lp.unframe(4, 'little'), [b'\x03\x00\x00\x00abc\x05\x00\x00', b'\x00xy'], [b'abc']),
                                 (lambda: line.unframe(), ['ab\ncd', 'ef'], ['ab', 'cdef'])):
            obs = rx.from_(chunks).pipe(mk())
            from ..bytelevel import RawSink
            a, b = RawSink(), RawSink()
            a.subscribe_to(obs)
            b.subscribe_to(obs)
            acc.evals += 2
            if a.items != want or b.items != want:
                return [viol('resubscribed', 'second-subscription-differs', {'first': a.items, 'second': b.items, 'expected': want})]
        acc.nontrivial.add(fast_hash('longline'))
        return []
    if case['fam'] == 'line':
        items = case['items']
        framed = ''.join(run([line.frame()], items).items) + case['tail']
        want = items + ([case['tail']] if case['tail'] else [])
        for cuts in chunkings(framed):
            for mode in (0, 1):
                chunks = with_empty_chunks(spaces.chunk(framed, cuts), '', mode)
                sink = run([line.unframe()], chunks)
                acc.evals += 1
                acc.events += len(chunks) + 1
                acc.traces += 1
                if sink.error is not None or sink.completed != 1:
                    out.append(viol('line', 'not-completed', {'items': items, 'chunks': chunks, 'error': repr(sink.error)}))
                elif sink.items != want:
                    out.append(viol('line', 'items-differ', {'items': want, 'chunks': chunks, 'observed': sink.items}))
                if out:
                    return out[:1]
            for c in cuts:
                acc.states.add(fast_hash(('line', framed[max(0, c - 1):c + 1] == '\n', framed[c - 1] == '\n')))
            if cuts:
                acc.nontrivial.add(fast_hash(('line', framed, cuts)))
        acc.outcomes.add(fast_hash(repr(want)))
        return out
    size, order = case['size'], case['order']
    if case['fam'] == 'lpmax':
        items = [b'a', bytes(range(256)) * (case['n'] // 256) + bytes(range(case['n'] % 256)), b'z']
        fs = run([lp.frame(size, order)], items)
        acc.evals += 1
        if fs.error is not None or fs.completed != 1:
            return [viol('length_prefix', 'frame-rejects-the-longest-encodable-item', {'prefix': [size, order], 'length': case['n'], 'error': repr(fs.error)})]
        framed = b''.join(fs.items)
        for cuts in [(), (1,), (size,), (size + 1,), (len(framed) - 1,), (size + 2, len(framed) - 2)]:
            sink = run([lp.unframe(size, order)], spaces.chunk(framed, cuts))
            acc.evals += 1
            acc.traces += 1
            if sink.error is not None or sink.items != items:
                return [viol('length_prefix', 'longest-encodable-item-differs', {'prefix': [size, order], 'length': case['n'], 'cuts': list(cuts),
                                                                             'observed_lengths': [len(x) for x in sink.items], 'error': repr(sink.error)})]
        acc.count('max_length_items')
        acc.nontrivial.add(fast_hash(('lpmax', size, order, case['n'])))
        return []
    items = [LP_ALPHA[i] for i in case['items']]
    framed = b''.join(run([lp.frame(size, order)], items).items)
    ops = lambda: [lp.unframe(size, order)]
    # frame boundaries for the truncation oracle
    ends = []
    pos = 0
    for it in items:
        pos += size + len(it)
        ends.append(pos)
    for cuts in chunkings(framed):
        for mode in (0, 1):
            chunks = with_empty_chunks(spaces.chunk(framed, cuts), b'', mode)
            sink = run(ops(), chunks)
            acc.evals += 1
            acc.events += len(chunks) + 1
            acc.traces += 1
            if sink.error is not None or sink.completed != 1:
                out.append(viol('length_prefix', 'not-completed', {'prefix': [size, order], 'items': items, 'chunks': chunks, 'error': repr(sink.error)}))
            elif sink.items != items:
                out.append(viol('length_prefix', 'items-differ', {'prefix': [size, order], 'items': items, 'chunks': chunks, 'observed': sink.items}))
            if out:
                return out[:1]
        for c in cuts:
            start = max([0] + [e for e in ends if e <= c])
            acc.states.add(fast_hash(('lp', size, order, c - start, c - start < size)))
        if any(c not in ends for c in cuts):
            acc.nontrivial.add(fast_hash(('lp', size, order, framed, cuts)))
            acc.count('cut_inside_prefix_or_payload')
    # every truncation point: exactly the complete frames of the prefix are delivered
    for t in range(len(framed) + 1):
        for cuts in ([()] + ([(t // 2,)] if t >= 2 else [])):
            chunks = spaces.chunk(framed[:t], cuts)
            sink = run(ops(), chunks)
            acc.evals += 1
            acc.events += len(chunks) + 1
            acc.traces += 1
            want = [it for it, e in zip(items, ends) if e <= t]
            if sink.items != want:
                out.append(viol('length_prefix', 'truncated-stream-delivers-wrong-frames',
                                {'prefix': [size, order], 'items': items, 'truncated_at': t, 'expected': want, 'observed': sink.items}))
                return out[:1]
        acc.count('truncation_points')
    acc.outcomes.add(fast_hash(repr((size, order, items))))
    return out


def guards(acc, tier):
    msgs = []
    for name in ('cut_inside_prefix_or_payload', 'truncation_points'):
        if acc.counters.get(name, 0) < 1:
            msgs.append('no execution with %s' % name)
    return msgs
