"""C16 - compression round-trips under re-chunking and flags truncated streams."""
import gzip
import io
import itertools
import random

import zstandard

import rxsci as rs

from .. import spaces
from ..bytelevel import run, chunkings
from ..engine import fast_hash

ID = 'C16'
TITLE = 'Compression round-trips under re-chunking and flags truncated streams'
LEVEL = 'model_checking'
RULE = ('chunk lists {[], [b\'\'], [b\'a\'], [b\'\', b\'abc\', b\'\'], compressible 240 B, incompressible 70 000 B, compressible 400 000 B} '
        'x {gzip, zstd}: the real compress() output must be a valid standalone file for the reference decoders (gzip module / '
        'zstandard) and, re-chunked in EVERY way with <= 2 cuts (short streams) or at every pair of positions from a boundary set '
        '(long streams: first/last 24 bytes and the 64 KiB / 128 KiB marks), each also with an empty chunk inserted at every chunk '
        'position including after the last byte, the real decompress() must emit exactly the original bytes and complete once; '
        'truncated at EVERY byte (short) / at the position set (long) it must signal on_error and never complete. '
        'Non-trivial = re-chunking with at least one cut; states = distinct (codec, input, cut position class) situations.')
DEEP_PROBES = ('3 MiB compressible, chunk lengths that are multiples of 65 535, 200 000 equal bytes, 280 kB of noise in 7 000-byte chunks, 4.3 MiB of noise (truncated also at inner frame ends), 1 048 700 chunks (thorough)')
ASSUMPTIONS = ['long streams are cut only at the stated position set (a capped space, reported as such)',
               'the compressed bytes are those produced by the real compress()']
LEVEL_TEXT = ('Bounded-exhaustive model checking over chunk schedules and truncation points (the fault dimension) of the real '
              'streaming codecs, with independent reference decoders as oracle.')
LEVEL_NOTE = 'Trusted: gzip.decompress and zstandard as reference decoders.'
TECHNIQUE = 'stateless bounded-exhaustive exploration of chunk schedules and truncation points against reference decoders'

CODECS = {'gzip': rs.compression.z, 'zstd': rs.compression.zstd}


def _inputs():
    rnd = random.Random(12345)
    incompressible = bytes(rnd.getrandbits(8) for _ in range(70000))
    return {
        'empty-list': [],
        'one-empty': [b''],
        'a': [b'a'],
        'abc-with-empties': [b'', b'abc', b''],
        'compressible-240': [b'hello world ' * 10, b'hello world ' * 10],
        'incompressible-70000': [incompressible[:30000], incompressible[30000:]],
        'incompressible-280000-in-7000B-chunks': [(incompressible * 4)[i:i + 7000] for i in range(0, 280000, 7000)],
        'compressible-400000': [(b'0123456789abcdef' * 25000)],
        'compressible-3MiB': [b'2026-10-02 12:00:00 INFO request handled in 12 ms\n' * 20000] * 3,
        'chunk-lengths-multiple-of-65535': [b'abcdefghij' * 13107, (b'0123456789' * 19661)[:196605], b'xyz'],
        'one-byte-repeated-200000': [b'x' * 200000],
        # chunk sizes of very different magnitude next to each other, all distinguishable (an operator that gathers small
        # chunks and passes large ones through must keep their order)
        'small-large-small': [b'header\n', bytes(range(256)) * 300, b'trailer\n', b'A' * 65536, b'z', b'B' * 131073, b'', b'end'],
        'large-small-large': [b'L' * 70000, b'1', b'2', b'M' * 65535, b'3', b'N' * 65537],
        'incompressible-4.3MiB': [rnd.randbytes(131072) for _ in range(33)] + [rnd.randbytes(70001)],
    }


INPUTS = _inputs()


def _more_inputs():
    rnd = random.Random(777)
    out = {}
    # more than 2^20 chunks of varying length (element counters of the codec objects)
    out['many-small-chunks-1048700'] = [b'abcdefg'[:1 + (i * 5) % 7] for i in range(1048700)]
    for n in (1, 2, 100, 1000, 65535, 65536, 65537, 131073, 200001):
        out['random-%d' % n] = [bytes(rnd.getrandbits(8) for _ in range(n))]
        out['text-%d' % n] = [(b'abcdefghij' * (n // 10 + 1))[:n][i:i + 50000] for i in range(0, n, 50000)]
    return out


THOROUGH_INPUTS = _more_inputs()


def bounds(tier):
    return {'inputs': list(INPUTS) + (list(THOROUGH_INPUTS) if tier != 'quick' else []), 'short_stream_limit': 40 if tier == 'quick' else 90,
            'max_cuts': 2, 'edge_positions': 12 if tier == 'quick' else 40}


def units(tier):
    names = list(INPUTS) + (list(THOROUGH_INPUTS) if tier != 'quick' else ['many-small-chunks-1048700'])
    return [{'codec': c, 'input': name, 'tier': tier} for c in CODECS for name in names]


def cases(unit):
    yield dict(unit)


def ref_decode(codec, data):
    if codec == 'gzip':
        return gzip.decompress(data)
    # a standalone .zst file may consist of several frames: read across them
    out = b''
    rest = data
    while True:
        d = zstandard.ZstdDecompressor().decompressobj()
        out += d.decompress(rest)
        if not d.eof:
            raise ValueError('reference zstd decoder: frame not complete')
        if not d.unused_data:
            return out
        rest = d.unused_data


def frame_ends(codec, data):
    """Offsets at which an inner zstd frame ends (truncating there must still be an error)."""
    ends = []
    if codec != 'zstd':
        return ends
    pos = 0
    rest = data
    while rest:
        d = zstandard.ZstdDecompressor().decompressobj()
        d.decompress(rest)
        if not d.eof:
            break
        pos = len(data) - len(d.unused_data)
        if d.unused_data:
            ends.append(pos)
        rest = d.unused_data
    return ends


def viol(codec, sym, detail):
    return {'signature': 'C16|%s|%s' % (codec, sym), 'detail': detail}


def run_case(case, acc):
    codec, name, tier = case['codec'], case['input'], case['tier']
    mod = CODECS[codec]
    chunks_in = INPUTS[name] if name in INPUTS else THOROUGH_INPUTS[name]
    data = b''.join(chunks_in)
    out = []
    def same_content(a, b):          # two compressions of the same data may differ in bytes (header fields), not in content
        try:
            return ref_decode(codec, b''.join(a)) == ref_decode(codec, b''.join(b))
        except Exception:
            return False
    sink = run([mod.compress()], chunks_in, same=same_content)
    acc.evals += 1
    acc.events += len(chunks_in) + 1
    if sink.error is not None or sink.completed != 1:
        return [viol(codec, 'compress-not-completed', {'input': name, 'error': repr(sink.error)})]
    comp = b''.join(sink.items)
    try:
        ref = ref_decode(codec, comp)
    except Exception as e:
        return [viol(codec, 'compressed-stream-not-a-valid-standalone-file', {'input': name, 'error': repr(e), 'length': len(comp)})]
    if ref != data:
        return [viol(codec, 'reference-decoder-yields-other-bytes', {'input': name})]
    L = len(comp)
    short = L <= (40 if tier == 'quick' else 90)
    if short:
        cutsets = list(spaces.cut_sets(L, 2))
    else:
        e = 12 if tier == 'quick' else 40
        pos = sorted(set(list(range(1, e + 1)) + list(range(L - e, L)) + [p for p in (65536, 65537, 131072) if p < L]))
        cutsets = [()] + [(p,) for p in pos] + [(p, q) for i, p in enumerate(pos) for q in pos[i + 1:]]
        if len(data) > 100000:
            cutsets = cutsets[::3]
        if len(data) > 1000000 or name.startswith('chunk-lengths') or name.startswith('many-small'):
            cutsets = [()] + [(p,) for p in pos[::4]] + [tuple(sorted(set(itertools.accumulate(len(c) for c in sink.items))))[:-1]]
    seen_err = set()

    def report(sym, detail):
        if sym not in seen_err:
            seen_err.add(sym)
            out.append(viol(codec, sym, dict(detail, input=name, compressed_length=L)))

    for cuts in cutsets:
        base = spaces.chunk(comp, cuts)
        variants = [base]
        if short or len(cuts) <= 1:
            for p in range(len(base) + 1):
                variants.append(base[:p] + [b''] + base[p:])
        for chunks in variants:
            s = run([mod.decompress()], chunks)
            acc.evals += 1
            acc.events += len(chunks) + 1
            acc.traces += 1
            where = 'after-end-of-stream' if chunks and chunks[-1] == b'' and len(chunks) > len(base) else 'inside'
            if s.error is not None:
                report('decompress-error-on-valid-stream%s' % ('-empty-chunk-' + where if len(chunks) > len(base) else ''),
                       {'cuts': list(cuts), 'chunk_lengths': [len(c) for c in chunks], 'error': repr(s.error)})
            elif s.completed != 1:
                report('decompress-not-completed-once', {'cuts': list(cuts), 'completed': s.completed})
            elif b''.join(s.items) != data:
                report('decompressed-bytes-differ', {'cuts': list(cuts), 'chunk_lengths': [len(c) for c in chunks]})
        if cuts:
            acc.nontrivial.add(fast_hash((codec, name, cuts)))
        for c in cuts:
            acc.states.add(fast_hash((codec, name, min(c, 30), min(L - c, 30))))
    # truncation: every byte (short) / position set (long)
    tpos = list(range(0, L)) if L <= 300 else sorted(set(list(range(0, 25)) + list(range(L - 25, L)) + [L // 2, 65536 if L > 65536 else L // 3]
                                                          + frame_ends(codec, comp)))
    for t in tpos:
        for cuts in ([()] + ([(t // 2,)] if t >= 2 else [])):
            chunks = spaces.chunk(comp[:t], cuts) if t else []
            s = run([mod.decompress()], chunks)
            acc.evals += 1
            acc.events += len(chunks) + 1
            acc.traces += 1
            acc.count('truncation_points')
            if s.completed:
                report('truncated-stream-completes', {'truncated_at': t, 'of': L, 'emitted': len(b''.join(s.items))})
            elif s.error is None:
                report('truncated-stream-neither-error-nor-completion', {'truncated_at': t})
    acc.outcomes.add(fast_hash((codec, name, L)))
    acc.count('cut_sets', len(cutsets))
    return out


def guards(acc, tier):
    msgs = []
    if acc.counters.get('truncation_points', 0) < 100:
        msgs.append('fewer than 100 truncation points')
    return msgs
