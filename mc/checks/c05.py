"""C05 - roll produces exactly the count-based sliding windows, in order."""
from .. import opspecs, spaces, harness
from ..drivers import run_api_mux, run_raw_mux, lifetimes, store_snapshot, new_store
from ..engine import fast_hash

ID = 'C05'
TITLE = 'roll produces exactly the count-based sliding windows, in order'
LEVEL = 'model_checking'
RULE = ('complete grid of (window, stride) x every stream length 0..3(w+s)+2 at top level; roll under group_by with '
        'every interleaving of 2-3 keys; roll nested in roll/split; roll on every well-formed raw-mux event sequence '
        '(adjacent and sparse key indices, key reuse). Each case runs the real pipeline once and compares the emitted '
        'windows, their order, and the window-lifetime brackets at the head of the inner pipeline with the slicing '
        'model items[k*s:k*s+w]. Non-trivial = at least two windows; distinct = distinct case descriptor. '
        'states = distinct canonical snapshots of the real StoreManager at the end of a history.')
DEEP_PROBES = ('roll(260,130), (257,256), (300,300), (257,64), (258,300); every stride 7..130 (..400 thorough); three alternating keys over the whole 6x6 grid; 4 100 live keys; 140 000 items (thorough)')
ASSUMPTIONS = [
    'roll is value-oblivious, so one numbered history per (configuration, length, interleaving) is general',
    'window/stride beyond the grid, keys beyond 3 and per-key lengths beyond the bound are not covered',
    'the order in which two overlapping windows receive the same item is not part of the property and not compared',
]

INNER = [['tap', 'h'], ['to_list'], ['tap', 't']]


def bounds(tier):
    g = 8 if tier == 'quick' else 10
    return {'window': [1, g], 'stride': [1, g], 'length': '0..3(w+s)+2',
            'grouped_keys': [2, 3], 'grouped_per_key_len': 5 if tier == 'quick' else 6,
            'raw_depth': 9 if tier == 'quick' else 11}


def windows(items, w, s):
    return [items[k:k + w] for k in range(0, len(items), s)]


ENTRY_SPECS = [[['roll', 2, 1, [['to_list']]]], [['roll', 2, 2, [['to_list']]]], [['roll', 3, 2, [['to_list']]]], [['roll', 1, 2, [['to_list']]]]]
ENTRY_OTHER = [['roll', 3, 1, [['count', True]]]]
ENTRY_ITEMS = [[0, 1, 2, 3, 4], [10, 11, 12, 13]]


def units(tier):
    g = 8 if tier == 'quick' else 10
    out = []
    out.append({'fam': 'sharedlist'})
    out.append({'fam': 'entry'})
    for w in range(1, g + 1):
        for s in range(1, g + 1):
            out.append({'fam': 'top', 'w': w, 's': s})
    cfgs = [(1, 1), (2, 1), (2, 2), (3, 1), (3, 2), (2, 3), (4, 2), (3, 3), (5, 2), (1, 2)]
    L = 5 if tier == 'quick' else 6
    sizes = [(a, b) for a in range(1, L + 1) for b in range(1, L + 1)]
    sizes3 = [(a, b, c) for a in range(1, 4) for b in range(1, 4) for c in range(1, 4)] if tier != 'quick' else \
        [(a, b, c) for a in range(1, 3) for b in range(1, 4) for c in range(1, 3)]
    for (w, s) in cfgs:
        for part in spaces.shard(sizes + sizes3, 4):
            out.append({'fam': 'grouped', 'w': w, 's': s, 'sizes': part})
    # large windows/strides (beyond the small-int range of the interpreter) and deep grouped runs over the whole grid
    for (w, s) in [(260, 130), (257, 256), (300, 300), (257, 64), (258, 300)]:
        out.append({'fam': 'large', 'w': w, 's': s})
    for w in range(1, 7):
        out.append({'fam': 'deepgroup', 'w': w})
    for part in spaces.shard(list(range(7, 131 if tier == 'quick' else 400)), 8):
        out.append({'fam': 'stridesweep', 'strides': part})
    out.append({'fam': 'nptypes'})
    out.append({'fam': 'manykeys', 'keys': 4100})
    out.append({'fam': 'verylong', 'n': 140000})
    nest = [(2, 1), (2, 2), (3, 2), (1, 2), (3, 1)]
    for (w1, s1) in nest:
        for (w2, s2) in nest:
            out.append({'fam': 'rollroll', 'w1': w1, 's1': s1, 'w2': w2, 's2': s2})
        out.append({'fam': 'splitroll', 'w': w1, 's': s1})
        out.append({'fam': 'rollsplit', 'w': w1, 's': s1})
    depth = 9 if tier == 'quick' else 11
    for (w, s) in [(2, 1), (3, 2), (2, 2), (3, 1), (1, 2), (2, 3)]:
        for keys in ([0, 1], [1, 3]):
            n = 8 if tier == 'quick' else 32
            for sh in range(n):
                out.append({'fam': 'raw', 'w': w, 's': s, 'keys': keys, 'depth': depth, 'shard': [sh, n]})
    return out


def cases(unit):
    if unit.get('fam') == 'sharedlist':
        yield {'fam': 'sharedlist'}
        return
    if unit.get('fam') == 'entry':
        # the operator reached through the `sources=` entry point of with_store: two live sources share one store
        for si in range(len(ENTRY_SPECS)):
            for order in spaces.interleavings([len(ENTRY_ITEMS[0]), len(ENTRY_ITEMS[1])]):
                yield {'fam': 'entry', 'spec': si, 'order': order}
        return
    fam = unit['fam']
    if fam == 'top':
        w, s = unit['w'], unit['s']
        for n in range(0, 3 * (w + s) + 3):
            yield {'fam': 'top', 'w': w, 's': s, 'n': n}
    elif fam == 'grouped':
        for sizes in unit['sizes']:
            for order in spaces.interleavings(sizes):
                yield {'fam': 'grouped', 'w': unit['w'], 's': unit['s'], 'order': order}
    elif fam == 'large':
        for n in (unit['w'] - 1, unit['w'], unit['w'] + 1, 2 * unit['w'] + 3):
            yield {'fam': 'top', 'w': unit['w'], 's': unit['s'], 'n': n}
    elif fam == 'stridesweep':
        # every stride in a wide range (slot arithmetic must be exact for all of them), window a little larger than the stride
        for st in unit['strides']:
            yield {'fam': 'top', 'w': st + 3, 's': st, 'n': 2 * st + 8}
    elif fam == 'nptypes':
        # window / stride given as numpy integers (what a configuration read with numpy or pandas hands over)
        for w in range(1, 5):
            for s in range(1, 5):
                for kind in ('int64', 'int32', 'uint8'):
                    yield {'fam': 'nptypes', 'w': w, 's': s, 'kind': kind, 'n': 2 * (w + s) + 1}
    elif fam == 'manykeys':
        yield {'fam': 'manykeys', 'keys': unit['keys'], 'w': 2, 's': 3}
        yield {'fam': 'manykeys', 'keys': unit['keys'] // 8, 'w': 3, 's': 2}
    elif fam == 'verylong':
        yield {'fam': 'verylong', 'n': unit['n'], 'w': 2, 's': 1}
    elif fam == 'deepgroup':
        for s in range(1, 7):
            n = 3 * (unit['w'] + s) + 2
            # three keys, strictly alternating, long enough to wrap each key's slot ring three times
            yield {'fam': 'grouped', 'w': unit['w'], 's': s, 'order': [i % 3 for i in range(3 * n)]}
    elif fam == 'rollroll':
        for n in range(0, 13):
            yield dict(unit, n=n)
    elif fam in ('splitroll', 'rollsplit'):
        for seq in spaces.sequences([0, 1], 7):
            yield dict(unit, seq=seq)
    elif fam == 'raw':
        seqs = spaces.wf_sequences(unit['keys'], [0], unit['depth'])
        sh, n = unit['shard']
        for i, seq in enumerate(seqs):
            if i % n == sh:
                yield {'fam': 'raw', 'w': unit['w'], 's': unit['s'],
                       'events': [list(e) for e in spaces.number_values(seq)]}


def viol(sym, detail):
    return {'signature': 'C05|%s' % sym, 'detail': detail}


def check_brackets(log, expected_windows, fam):
    """Window lifetimes seen at the head of the inner pipeline."""
    lts, problems = lifetimes(log)
    out = []
    if problems:
        out.append(viol('%s|window-lifecycle-broken' % fam, {'problems': problems[:5]}))
    got = [l[1] for l in lts]
    if sorted(map(repr, got)) != sorted(map(repr, expected_windows)):
        out.append(viol('%s|window-content' % fam, {'expected': expected_windows, 'observed': got}))
    elif got != expected_windows:
        out.append(viol('%s|windows-opened-out-of-order' % fam, {'expected': expected_windows, 'observed': got}))
    if any(not l[2] for l in lts):
        out.append(viol('%s|window-never-closed' % fam, {'lifetimes': lts}))
    # closing order == opening order
    opened = [l[0] for l in lts]
    closed = [ev[1] for ev in log if ev[0] == 'd']
    if not out and _close_order_differs(lts, log):
        out.append(viol('%s|windows-closed-out-of-opening-order' % fam, {'opened': opened, 'closed': closed}))
    return out


def _close_order_differs(lts, log):
    # assign each create its ordinal, then the sequence of ordinals at completion must be increasing
    live = {}
    order = []
    n = 0
    for ev in log:
        if ev[0] == 'c':
            live[ev[1]] = n
            n += 1
        elif ev[0] == 'd' and ev[1] in live:
            order.append(live.pop(ev[1]))
    return order != sorted(order)


def run_case(case, acc):
    if case.get('fam') == 'sharedlist':
        # one list object used as the pipeline of two operators
        import rxsci as rs
        d = harness.shared_list_problem(lambda L: rs.data.roll(2, 1, L), lambda L: rs.data.roll(3, 3, L), [0, 1, 2, 3, 4, 5, 6])
        acc.evals += 3
        acc.count('shared_pipeline_lists')
        return [viol('sharedlist|pipeline-list-shared-by-two-operators', d)] if d else []
    if case.get('fam') == 'entry':
        specs = [ENTRY_SPECS[case['spec']], ENTRY_OTHER]
        acc.evals += 1
        acc.traces += 2
        acc.events += len(case['order']) + 2
        acc.count('sources_entry_point_runs')
        acc.outcomes.add(fast_hash(repr(case)))
        return [viol('entry|sources-entry-point-source-%d-windows-%s' % (k, kind), {'pipelines': specs, 'order': case['order'], 'expected': exp, 'observed': got, 'error': err}) for (k, kind, exp, got, err) in harness.sources_problems(specs, ENTRY_ITEMS, case['order'])][:1]
    fam = case['fam']
    big = case.get('w', 0) > 20 or len(case.get('order', [])) > 40
    ctx = opspecs.Ctx(not big)          # store snapshots at every event are only affordable for the small cases
    out = []
    if fam == 'top':
        w, s, n = case['w'], case['s'], case['n']
        items = list(range(n))
        spec = [['roll', w, s, INNER]]
        store = new_store()
        import rx
        import rxsci as rs
        from ..drivers import Sink
        sink = Sink()
        obs = rx.from_(items).pipe(rs.state.with_store(store, opspecs.build(spec, ctx)))
        sink.subscribe_to(obs)
        acc.evals += 1
        acc.events += n + 1
        acc.traces += 1
        if not big and n <= w + s + 1:
            harness.resubscribe(obs, sink, ctx)
            acc.evals += 1
            acc.events += n + 1
            acc.traces += 1
            acc.count('second_subscriptions')
            d = harness.second_problem(sink)
            if d:
                out.append(viol('top|second-subscription-differs', dict(d, w=w, s=s, n=n)))
        exp = windows(items, w, s)
        if sink.error is not None or sink.completed != 1:
            out.append(viol('top|stream-not-completed', {'status': sink.status()}))
        if sink.items != exp:
            sym = 'windows-differ'
            if sorted(map(repr, sink.items)) == sorted(map(repr, exp)):
                sym = 'partial-windows-flushed-out-of-opening-order' if sink.items[:max(0, (n - w) // s + 1)] == exp[:max(0, (n - w) // s + 1)] else 'windows-out-of-order'
            out.append(viol('top|%s' % sym, {'expected': exp, 'observed': sink.items}))
        if not out or True:
            out.extend(v for v in check_brackets(ctx.log('h'), exp, 'top') if v['signature'] not in [o['signature'] for o in out])
        acc.states.update(ctx.states or ())
        acc.outcomes.add(fast_hash(repr(sink.items)))
        if len(exp) >= 2:
            acc.nontrivial.add(fast_hash(repr(case)))
        if n > w + s:
            acc.count('ring_wrapped')
        return out

    if fam in ('manykeys', 'verylong'):
        return run_big(case, acc)
    if fam == 'nptypes':
        import numpy as np
        import rx
        import rxsci as rs
        from ..drivers import Sink
        w, s, n = case['w'], case['s'], case['n']
        t = getattr(np, case['kind'])
        items = list(range(n))
        exp = windows(items, w, s)
        for wt, st in ((t(w), t(s)), (w, t(s)), (t(w), s)):
            sink = Sink()
            sink.subscribe_to(rx.from_(items).pipe(rs.state.with_memory_store([rs.data.roll(wt, st, [rs.data.to_list()])])))
            acc.evals += 1
            acc.events += n + 1
            acc.traces += 1
            if sink.error is not None or sink.items != exp:
                out.append(viol('nptypes|windows-differ-for-numpy-integer-arguments',
                                {'window': repr(wt), 'stride': repr(st), 'kind': case['kind'], 'expected': exp, 'observed': sink.items, 'error': repr(sink.error)}))
                break
        acc.count('numpy_integer_arguments')
        acc.outcomes.add(fast_hash(repr((w, s, case['kind'], sink.items))))
        return out
    if fam == 'grouped':
        w, s, order = case['w'], case['s'], case['order']
        pos = {}
        items = []
        for g in order:
            items.append(100 * g + pos.get(g, 0))
            pos[g] = pos.get(g, 0) + 1
        spec = [['group_by', 'div100', [['roll', w, s, INNER]]]]
    elif fam == 'rollroll':
        items = list(range(case['n']))
        spec = [['roll', case['w1'], case['s1'], [['roll', case['w2'], case['s2'], INNER], ['to_list']]]]
    elif fam == 'splitroll':
        items = [10 * i + b for i, b in enumerate(case['seq'])]
        spec = [['split', 'mod10_lt2' if False else 'mod10_even', [['roll', case['w'], case['s'], INNER]]]]
    elif fam == 'rollsplit':
        items = [10 * i + b for i, b in enumerate(case['seq'])]
        spec = [['roll', case['w'], case['s'], [['split', 'mod10_even', [['to_list']]], ['to_list']]]]
    elif fam == 'raw':
        return run_raw(case, acc)
    else:
        raise ValueError(fam)

    store = new_store()
    import rx
    import rxsci as rs
    from ..drivers import Sink
    sink = Sink()
    obs = rx.from_(items).pipe(rs.state.with_store(store, opspecs.build(spec, ctx)))
    sink.subscribe_to(obs)
    acc.evals += 1
    acc.events += len(items) + 1
    acc.traces += 1
    if len(items) <= 5:
        harness.resubscribe(obs, sink, ctx)
        acc.evals += 1
        acc.events += len(items) + 1
        acc.traces += 1
        acc.count('second_subscriptions')
        d = harness.second_problem(sink)
        if d:
            out.append(viol('%s|second-subscription-differs' % fam, dict(d, spec=spec, items=items)))
    m = opspecs.model(spec)
    exp = []
    for x in items:
        exp.extend(m.item(x))
    exp.extend(m.end())
    if sink.error is not None or sink.completed != 1:
        out.append(viol('%s|stream-not-completed' % fam, {'status': sink.status(), 'spec': spec, 'items': items}))
    if sink.items != exp:
        sym = 'windows-differ'
        if sorted(map(repr, sink.items)) == sorted(map(repr, exp)):
            sym = 'windows-out-of-order'
        out.append(viol('%s|%s' % (fam, sym), {'spec': spec, 'items': items, 'expected': exp, 'observed': sink.items}))
    if fam == 'grouped':
        # per group: windows opened/closed in order with exactly their items
        log = ctx.log('h')
        per = {}
        for ev in log:
            if ev[0] in ('c', 'n', 'd'):
                per.setdefault(ev[1][1], []).append(ev)
        groups = {}
        for x in items:
            groups.setdefault(x // 100, []).append(x)
        if len(per) != len([g for g in groups]):
            out.append(viol('grouped|group-count', {'per': list(per), 'groups': list(groups)}))
        for gkey, glog in per.items():
            first = next((ev[2] for ev in glog if ev[0] == 'n'), None)
            if first is None:
                continue
            gitems = groups[first // 100]
            for v in check_brackets(glog, windows(gitems, w, s), 'grouped'):
                if v['signature'] not in [o['signature'] for o in out]:
                    v['detail'].update({'items': items, 'w': w, 's': s})
                    out.append(v)
        if len(set(order)) > 1 and order != sorted(order):
            acc.count('interleaved_keys')
    acc.states.update(ctx.states or ())
    acc.outcomes.add(fast_hash(repr(sink.items)))
    if len(exp) >= 2:
        acc.nontrivial.add(fast_hash(repr(case)))
    return out


def run_big(case, acc):
    """Thousands of simultaneously live keys (round-robin, 6 items each) / one very long key: sums of the windows."""
    import rx
    import rxsci as rs
    from ..drivers import Sink
    w, s = case['w'], case['s']
    if case['fam'] == 'manykeys':
        nk = case['keys']
        items = [(k, p) for p in range(6) for k in range(nk)]
        pipeline = [rs.ops.group_by(lambda t: t[0], [rs.data.roll(w, s, [rs.ops.map(lambda t: t[1]), rs.data.to_list()])])]
        exp_per_key = windows(list(range(6)), w, s)
        sink = Sink()
        sink.subscribe_to(rx.from_(items).pipe(rs.state.with_memory_store(pipeline)))
        acc.evals += 1
        acc.events += len(items)
        acc.traces += 1
        if sink.error is not None or sink.completed != 1:
            return [viol('manykeys|stream-not-completed', {'keys': nk, 'error': repr(sink.error)})]
        # every key must produce exactly the windows of 0..5; count them (outputs carry no key, order is by emission)
        from collections import Counter
        got = Counter(map(repr, sink.items))
        want = Counter()
        for win in exp_per_key:
            want[repr(win)] += nk
        if got != want:
            return [viol('manykeys|windows-differ', {'keys': nk, 'w': w, 's': s, 'expected_counts': dict(want), 'observed_counts': dict(list(got.items())[:8])})]
        acc.count('many_live_keys')
        acc.nontrivial.add(fast_hash(repr(case)))
        return []
    n = case['n']
    sink = Sink()
    sink.subscribe_to(rx.range(0, n).pipe(rs.state.with_memory_store([rs.data.roll(w, s, [rs.math.sum(reduce=True)]), rs.ops.count(reduce=True)])))
    acc.evals += 1
    acc.events += n
    acc.traces += 1
    if sink.error is not None or sink.items != [len(windows(list(range(n)), w, s))]:
        return [viol('verylong|window-count-differs', {'n': n, 'observed': sink.items, 'error': repr(sink.error)})]
    return []


def run_raw(case, acc):
    w, s = case['w'], case['s']
    events = [tuple(e) for e in case['events']]
    ctx = opspecs.Ctx(True)
    spec = [['roll', w, s, INNER]]
    sink = run_raw_mux(opspecs.build(spec, ctx), events)
    acc.evals += 1
    acc.events += len(events) + 1
    acc.traces += 1
    out = []
    # expected: per key lifetime the slicing model; full windows in event order, partial at completion
    exp = []
    cur = {}
    lives = {}
    reused = False
    for ev in events:
        k = (ev[1],)
        if ev[0] == 'c':
            exp.append(('c', k))
            cur[k] = []
            lives[k] = lives.get(k, 0) + 1
            reused = reused or lives[k] > 1
        elif ev[0] == 'n':
            cur[k].append(ev[2])
            n = len(cur[k])
            if n >= w and (n - w) % s == 0:
                exp.append(('n', k, cur[k][n - w:n]))
        elif ev[0] == 'd':
            n = len(cur[k])
            for st in range(0, n, s):
                if st + w > n:
                    exp.append(('n', k, cur[k][st:]))
            exp.append(('d', k))
            del cur[k]
    if sink.error is not None or sink.completed != 1:
        out.append(viol('raw|stream-not-completed', {'status': sink.status()}))
    if sink.items != exp:
        sym = 'windows-differ'
        if sorted(map(repr, sink.items)) == sorted(map(repr, exp)):
            sym = 'windows-out-of-order'
        out.append(viol('raw|%s' % sym, {'w': w, 's': s, 'events': events, 'expected': exp, 'observed': sink.items}))
    lts, problems = lifetimes(ctx.log('h'))
    if problems:
        out.append(viol('raw|window-lifecycle-broken', {'problems': problems[:5], 'events': events}))
    if reused:
        acc.count('key_index_reused')
    if len(set(e[1] for e in events)) > 1:
        acc.count('two_keys')
    acc.states.update(ctx.states)
    acc.outcomes.add(fast_hash(repr(sink.items)))
    if len([e for e in exp if e[0] == 'n']) >= 2:
        acc.nontrivial.add(fast_hash(repr(case)))
    return out


def guards(acc, tier):
    msgs = []
    c = acc.counters
    for name in ('ring_wrapped', 'interleaved_keys', 'key_index_reused', 'two_keys', 'many_live_keys'):
        if c.get(name, 0) < 1:
            msgs.append('no execution with %s' % name)
    if len(acc.outcomes) < 50:
        msgs.append('fewer than 50 distinct outcomes')
    return msgs

LEVEL_TEXT = ('Bounded-exhaustive model checking of the real roll operator: every (window, stride) of the grid, every '
              'stream length that wraps the slot ring three times, every interleaving of 2-3 grouped keys, every '
              'well-formed raw-mux event sequence up to the depth (with key-index reuse), nested in roll/split; each '
              'execution is compared with the slicing model and with the window lifetimes seen inside the operator. '
              'This is the right level because roll is a finite slot-ring state machine whose defects show only at '
              'particular (w, s, length, completion point) combinations that examples do not visit.')
LEVEL_NOTE = ('Trusted: the 10-line slicing model and the reference interpreter (mc/refmodel.py); RxPY itself. '
              'Not covered: windows/strides beyond the grid, more than 3 keys, values (roll is value-oblivious).')
TECHNIQUE = 'stateless bounded-exhaustive exploration of the real operator against a list-slicing reference model'


def unit_test(case):
    from .. import harness
    if case['fam'] == 'top':
        items = list(range(case['n']))
        return harness.unit_test_api([['roll', case['w'], case['s'], [['to_list']]]], items, windows(items, case['w'], case['s']))
    if case['fam'] == 'raw':
        return harness.unit_test_raw([['roll', case['w'], case['s'], [['to_list']]]], case['events'])
    if case['fam'] == 'grouped':
        pos, items = {}, []
        for g in case['order']:
            items.append(100 * g + pos.get(g, 0))
            pos[g] = pos.get(g, 0) + 1
        spec = [['group_by', 'div100', [['roll', case['w'], case['s'], [['to_list']]]]]]
        return harness.unit_test_api(spec, items, harness.model_all(spec, items))
    return None
