"""C17 - incremental text encode/decode is chunk-boundary independent."""
import codecs

import rxsci as rs

from .. import spaces
from ..bytelevel import run, with_empty_chunks, chunkings
from ..engine import fast_hash

ID = 'C17'
TITLE = 'Incremental text encode/decode is chunk-boundary independent'
LEVEL = 'model_checking'
RULE = ('string lists up to the length bound over {empty string, ASCII, 2-/3-/4-byte UTF-8 characters (the 4-byte one is a surrogate '
        'pair in UTF-16), base+combining mark, U+FEFF as content} x {utf-8, utf-16, utf-32, latin-1 (<= U+00FF subset)}: the bytes '
        'produced by the real encode() are cut in EVERY way (all cut sets up to 13 bytes, otherwise <= 2 cuts), each also with '
        'empty chunks interleaved, and fed to the real decode(); the concatenated text must equal the concatenated input and the '
        'one-shot decoder applied to the whole encoder output must agree (byte-order mark written once). Non-trivial = a cut inside '
        'a multi-byte sequence; states = distinct (encoding, pending-bytes-at-cut) situations.')
DEEP_PROBES = ('json dump_to_file / load_from_file (lines and lines=False) x encoding x compression; 72 000-character texts; single chunks of 2^20, 2^20+1, 2^21+1 bytes; 65 560 items through one encoder; a second subscription after an early dispose')
ASSUMPTIONS = ['one representative per UTF-8 length class plus combining mark and U+FEFF, not the full Unicode range',
               'streams longer than 13 bytes: at most 2 cuts']
LEVEL_TEXT = ('Bounded-exhaustive model checking over byte-level chunk schedules of the real incremental codec operators for all '
              'short string lists and all four encodings; the decoder\'s pending-byte buffer is the only state and every way of '
              'splitting a multi-byte sequence is enumerated.')
LEVEL_NOTE = 'Trusted: Python str equality and the one-shot bytes.decode as reference.'
TECHNIQUE = 'stateless bounded-exhaustive exploration of all byte-level chunk schedules against the one-shot codec'

ALPHA = ['', 'a', '\u00e9', '\u20ac', '\U0001F600', 'e\u0301', '\ufeff']
LATIN = ['', 'a', '\u00e9', '\u00ff']
ENCODINGS = ['utf-8', 'utf-16', 'utf-32', 'latin-1']


def bounds(tier):
    return {'max_strings': 3 if tier == 'quick' else 4, 'alphabet': [repr(a) for a in ALPHA], 'encodings': ENCODINGS}


JSON_OBJS = [[], [{'a': 'x'}], [{'a': '\u00e9'}, {'b': '\U0001F600'}], [{'a': 1}, {'b': '\ufeff'}, {'c': 'e\u0301'}]]


# other spellings of the same encodings (codecs.lookup resolves them to the same codec)
ALIASES = [('utf_16', 'utf-16'), ('UTF16', 'utf-16'), ('U16', 'utf-16'), ('utf_32', 'utf-32'), ('U32', 'utf-32'), ('utf8', 'utf-8'),
           ('UTF-8', 'utf-8'), ('U8', 'utf-8'), ('iso-8859-1', 'latin-1'), ('L1', 'latin-1'), ('utf-16-le', None), ('utf-32-be', None),
           ('utf-8-sig', None)]


def is_latin(enc):
    import codecs
    return codecs.lookup(enc).name == 'iso8859-1'


def units(tier):
    L = 3 if tier == 'quick' else 4
    out = []
    for alias, _ in ALIASES:
        out.append({'fam': 'codec', 'enc': alias, 'L': 2, 'shard': [0, 1]})
    for enc in ENCODINGS:
        for comp in (None, 'gzip', 'zstd'):
            out.append({'fam': 'json', 'enc': enc, 'comp': comp})
    for enc in ENCODINGS:
        n = 8 if enc != 'latin-1' else 2
        for sh in range(n):
            out.append({'fam': 'codec', 'enc': enc, 'L': L if enc in ('utf-8', 'latin-1') else L - 1 + (1 if tier != 'quick' else 0), 'shard': [sh, n]})
    return out


def cases(unit):
    if unit.get('fam') == 'json' and unit.get('comp') is None:
        yield {'fam': 'long', 'enc': unit['enc']}
    if unit.get('fam') == 'json':
        for i in range(len(JSON_OBJS)):
            yield {'fam': 'json', 'enc': unit['enc'], 'comp': unit['comp'], 'objs': i}
        return
    sh, n = unit['shard']
    alpha = LATIN if is_latin(unit['enc']) else ALPHA
    for i, idx in enumerate(spaces.sequences(range(len(alpha)), unit['L'])):
        if i % n == sh:
            yield {'enc': unit['enc'], 'strings': list(idx)}


def viol(enc, sym, detail):
    return {'signature': 'C17|%s|%s' % (enc, sym), 'detail': detail}


def run_json(case, acc):
    """The same incremental codec inside json.dump_to_file / load_from_file (with and without compression):
    the stored bytes, decoded in one shot, are the JSON lines (byte-order mark once), and load returns the objects
    under every single short read."""
    import gzip
    import json as pyjson
    import rx
    import zstandard
    import rxsci.container.json as rsjson
    from ..bytelevel import Device, RawSink
    enc, comp = case['enc'], case['comp']
    objs = JSON_OBJS[case['objs']]
    if enc == 'latin-1':
        objs = [o for o in objs if all(ord(ch) < 256 for v in o.values() if isinstance(v, str) for ch in v)]
    dev = Device()
    s = RawSink()
    s.subscribe_to(rx.from_(objs).pipe(rsjson.dump_to_file(dev, encoding=enc, compression=comp)))
    acc.evals += 1
    acc.events += len(objs) + 1
    if s.error is not None or s.completed != 1:
        return [viol(enc, 'json-dump_to_file-error', {'objects': objs, 'compression': comp, 'error': repr(s.error)})]
    data = dev.content()
    raw = data
    try:
        if comp == 'gzip':
            raw = gzip.decompress(data)
        elif comp == 'zstd':
            raw = zstandard.ZstdDecompressor().decompressobj().decompress(data)
        text = raw.decode(enc)
        back = [pyjson.loads(l) for l in text.split('\n') if l]
    except Exception as e:
        return [viol(enc, 'json-file-not-decodable-in-one-shot (byte-order mark written more than once?)',
                     {'objects': objs, 'compression': comp, 'error': repr(e)})]
    if back != objs:
        return [viol(enc, 'json-file-one-shot-decode-differs (byte-order mark written more than once?)',
                     {'objects': objs, 'compression': comp, 'decoded': text})]
    L = len(data)
    for sched in [[]] + [[p] for p in range(1, L)]:
        d = Device(data, sched)
        r = RawSink()
        r.subscribe_to(rsjson.load_from_file(d, encoding=enc, compression=comp))
        acc.evals += 1
        acc.events += d.reads + 1
        acc.traces += 1
        if r.error is not None or r.completed != 1 or r.items != objs:
            return [viol(enc, 'json-load_from_file-differs', {'objects': objs, 'compression': comp, 'read_schedule': sched,
                                                              'loaded': r.items, 'error': repr(r.error)})]
    # the same through the single-document path (lines=False) for a one-object file
    if len(objs) == 1:
        r = RawSink()
        r.subscribe_to(rsjson.load_from_file(Device(data), lines=False, encoding=enc, compression=comp))
        acc.evals += 1
        if r.error is not None or r.items != objs:
            return [viol(enc, 'json-load_from_file-lines=False-differs', {'objects': objs, 'compression': comp, 'loaded': r.items,
                                                                          'error': repr(r.error)})]
    acc.count('json_files')
    acc.outcomes.add(fast_hash((enc, comp, case['objs'])))
    return []


def run_long(case, acc):
    enc = case['enc']
    unit_s = 'a\u00e9' if enc == 'latin-1' else 'a\u00e9\u20ac\U0001F600'
    strings = [unit_s * 9000, '', unit_s * 7]
    text = ''.join(strings)
    data = b''.join(run([rs.data.encode(enc)], strings).items)
    acc.evals += 1
    for step in (65536, 65537, 4095, 8192, 100001):
        chunks = [data[i:i + step] for i in range(0, len(data), step)]
        s = run([rs.data.decode(enc)], chunks)
        acc.evals += 1
        acc.traces += 1
        if s.error is not None or ''.join(s.items) != text:
            return [viol(enc, 'long-text-differs', {'chunk_size': step, 'error': repr(s.error), 'decoded_length': len(''.join(s.items)), 'expected_length': len(text)})]
    # a chunk of exactly k * 2^20 + 1 bytes, and one of exactly 2^20 bytes
    for n in (2 ** 20 + 1, 2 ** 20, 2 ** 21 + 1):
        base = (unit_s * (n // len(unit_s.encode(enc)) + 2))
        blob = base.encode(enc)[:n] if enc in ('latin-1',) else None
        if blob is None:
            # cut on a character boundary at or below n, pad with ASCII to reach n exactly where the encoding allows it
            t = ''
            raw = b''
            enc_a = len('a'.encode(enc if enc not in ('utf-16', 'utf-32') else enc + '-le'))
            whole = base[:n]
            raw = whole.encode(enc)
            while len(raw) > n:
                whole = whole[:-1]
                raw = whole.encode(enc)
            pad = (n - len(raw)) // enc_a
            whole = whole + 'a' * pad
            raw = whole.encode(enc)
            if len(raw) != n:
                continue
            blob, text2 = raw, whole
        else:
            text2 = blob.decode(enc)
        s = run([rs.data.decode(enc)], [blob])
        acc.evals += 1
        acc.traces += 1
        if s.error is not None or ''.join(s.items) != text2:
            return [viol(enc, 'single-chunk-of-%d-bytes-differs' % n, {'error': repr(s.error), 'decoded_length': len(''.join(s.items)), 'expected_length': len(text2)})]
    # more than 65536 items through one encoder: the byte-order mark is still written once
    many = ['a', '\u00e9'] * 32780
    sink = run([rs.data.encode(enc)], many)
    acc.evals += 1
    try:
        ok = b''.join(sink.items).decode(enc) == ''.join(many)
    except Exception:
        ok = False
    if sink.error is not None or not ok:
        return [viol(enc, 'many-items-one-shot-decode-differs (byte-order mark written more than once?)', {'items': len(many), 'error': repr(sink.error)})]
    # the same decode pipeline subscribed again after an earlier subscriber left in the middle of the stream
    import rx
    import rx.operators as rxops
    from ..bytelevel import RawSink
    src = b''.join(run([rs.data.encode(enc)], [unit_s * 3]).items)
    chunks = [src[:3], src[3:7], src[7:]]
    obs = rx.from_(chunks).pipe(rs.data.decode(enc))
    first = RawSink()
    first.subscribe_to(obs.pipe(rxops.take(1)))
    second = RawSink()
    second.subscribe_to(obs)
    acc.evals += 2
    if second.error is not None or ''.join(second.items) != unit_s * 3:
        return [viol(enc, 'second-subscription-differs-after-an-early-dispose', {'decoded': ''.join(second.items), 'error': repr(second.error)})]
    acc.nontrivial.add(fast_hash(('long', enc)))
    return []


def run_case(case, acc):
    if case.get('fam') == 'long':
        return run_long(case, acc)
    if case.get('fam') == 'json':
        return run_json(case, acc)
    enc = case['enc']
    alpha = LATIN if is_latin(enc) else ALPHA
    strings = [alpha[i] for i in case['strings']]
    text = ''.join(strings)
    sink = run([rs.data.encode(enc)], strings)
    acc.evals += 1
    acc.events += len(strings) + 1
    if sink.error is not None or sink.completed != 1:
        return [viol(enc, 'encode-not-completed', {'strings': strings, 'error': repr(sink.error)})]
    data = b''.join(sink.items)
    try:
        oneshot = data.decode(enc)
    except Exception as e:
        return [viol(enc, 'encoder-output-not-decodable', {'strings': strings, 'bytes': data.hex(), 'error': repr(e)})]
    if oneshot != text:
        return [viol(enc, 'one-shot-decode-differs (byte-order mark written more than once?)',
                     {'strings': strings, 'bytes': data.hex(), 'decoded': oneshot})]
    out = []
    for cuts in chunkings(data):
        for mode in (0, 1):
            chunks = with_empty_chunks(spaces.chunk(data, cuts), b'', mode)
            s = run([rs.data.decode(enc)], chunks)
            acc.evals += 1
            acc.events += len(chunks) + 1
            acc.traces += 1
            if s.error is not None or s.completed != 1:
                out.append(viol(enc, 'decode-not-completed', {'strings': strings, 'chunks': [c.hex() for c in chunks], 'error': repr(s.error)}))
            elif ''.join(s.items) != text:
                out.append(viol(enc, 'decoded-text-differs', {'strings': strings, 'chunks': [c.hex() for c in chunks], 'decoded': ''.join(s.items)}))
            if out:
                return out[:1]
        # pending bytes at each cut = what an incremental decoder holds there
        for c in cuts:
            d = codecs.getincrementaldecoder(enc)()
            d.decode(data[:c])
            pending = d.getstate()[0]
            acc.states.add(fast_hash((enc, pending)))
            if pending:
                acc.count('cut_inside_multibyte_sequence')
                acc.nontrivial.add(fast_hash((enc, data, cuts)))
    acc.outcomes.add(fast_hash((enc, text)))
    return out


def guards(acc, tier):
    msgs = []
    if acc.counters.get('cut_inside_multibyte_sequence', 0) < 100:
        msgs.append('fewer than 100 cuts inside a multi-byte sequence')
    return msgs
