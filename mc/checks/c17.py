"""C17 - incremental text encode/decode is chunk-boundary independent."""
import codecs

import rxsci as rs

from .. import spaces
from ..bytelevel import run, with_empty_chunks, chunkings
from ..engine import fast_hash

ID = 'C17'
TITLE = 'Incremental text encode/decode is chunk-boundary independent'
LEVEL = 'model_checking'
RULE = ('string lists up to the length bound over {empty string, ASCII, 2-/3-/4-byte UTF-8 characters (the 4-byte one is a surrogate '
        'pair in UTF-16), base+combining mark, U+FEFF as content} x {utf-8, utf-16, utf-32, latin-1 (<= U+00FF subset)}: the bytes '
        'produced by the real encode() are cut in EVERY way (all cut sets up to 13 bytes, otherwise <= 2 cuts), each also with '
        'empty chunks interleaved, and fed to the real decode(); the concatenated text must equal the concatenated input and the '
        'one-shot decoder applied to the whole encoder output must agree (byte-order mark written once). Non-trivial = a cut inside '
        'a multi-byte sequence; states = distinct (encoding, pending-bytes-at-cut) situations.')
ASSUMPTIONS = ['one representative per UTF-8 length class plus combining mark and U+FEFF, not the full Unicode range',
               'streams longer than 13 bytes: at most 2 cuts']
LEVEL_TEXT = ('Bounded-exhaustive model checking over byte-level chunk schedules of the real incremental codec operators for all '
              'short string lists and all four encodings; the decoder\'s pending-byte buffer is the only state and every way of '
              'splitting a multi-byte sequence is enumerated.')
LEVEL_NOTE = 'Trusted: Python str equality and the one-shot bytes.decode as reference.'
TECHNIQUE = 'stateless bounded-exhaustive exploration of all byte-level chunk schedules against the one-shot codec'

ALPHA = ['', 'a', '\u00e9', '\u20ac', '\U0001F600', 'e\u0301', '\ufeff']
LATIN = ['', 'a', '\u00e9', '\u00ff']
ENCODINGS = ['utf-8', 'utf-16', 'utf-32', 'latin-1']


def bounds(tier):
    return {'max_strings': 3 if tier == 'quick' else 4, 'alphabet': [repr(a) for a in ALPHA], 'encodings': ENCODINGS}


def units(tier):
    L = 3 if tier == 'quick' else 4
    out = []
    for enc in ENCODINGS:
        n = 8 if enc != 'latin-1' else 2
        for sh in range(n):
            out.append({'enc': enc, 'L': L if enc in ('utf-8', 'latin-1') else L - 1 + (1 if tier != 'quick' else 0), 'shard': [sh, n]})
    return out


def cases(unit):
    sh, n = unit['shard']
    alpha = LATIN if unit['enc'] == 'latin-1' else ALPHA
    for i, idx in enumerate(spaces.sequences(range(len(alpha)), unit['L'])):
        if i % n == sh:
            yield {'enc': unit['enc'], 'strings': list(idx)}


def viol(enc, sym, detail):
    return {'signature': 'C17|%s|%s' % (enc, sym), 'detail': detail}


def run_case(case, acc):
    enc = case['enc']
    alpha = LATIN if enc == 'latin-1' else ALPHA
    strings = [alpha[i] for i in case['strings']]
    text = ''.join(strings)
    sink = run([rs.data.encode(enc)], strings)
    acc.evals += 1
    acc.events += len(strings) + 1
    if sink.error is not None or sink.completed != 1:
        return [viol(enc, 'encode-not-completed', {'strings': strings, 'error': repr(sink.error)})]
    data = b''.join(sink.items)
    try:
        oneshot = data.decode(enc)
    except Exception as e:
        return [viol(enc, 'encoder-output-not-decodable', {'strings': strings, 'bytes': data.hex(), 'error': repr(e)})]
    if oneshot != text:
        return [viol(enc, 'one-shot-decode-differs (byte-order mark written more than once?)',
                     {'strings': strings, 'bytes': data.hex(), 'decoded': oneshot})]
    out = []
    for cuts in chunkings(data):
        for mode in (0, 1):
            chunks = with_empty_chunks(spaces.chunk(data, cuts), b'', mode)
            s = run([rs.data.decode(enc)], chunks)
            acc.evals += 1
            acc.events += len(chunks) + 1
            acc.traces += 1
            if s.error is not None or s.completed != 1:
                out.append(viol(enc, 'decode-not-completed', {'strings': strings, 'chunks': [c.hex() for c in chunks], 'error': repr(s.error)}))
            elif ''.join(s.items) != text:
                out.append(viol(enc, 'decoded-text-differs', {'strings': strings, 'chunks': [c.hex() for c in chunks], 'decoded': ''.join(s.items)}))
            if out:
                return out[:1]
        # pending bytes at each cut = what an incremental decoder holds there
        for c in cuts:
            d = codecs.getincrementaldecoder(enc)()
            d.decode(data[:c])
            pending = d.getstate()[0]
            acc.states.add(fast_hash((enc, pending)))
            if pending:
                acc.count('cut_inside_multibyte_sequence')
                acc.nontrivial.add(fast_hash((enc, data, cuts)))
    acc.outcomes.add(fast_hash((enc, text)))
    return out


def guards(acc, tier):
    msgs = []
    if acc.counters.get('cut_inside_multibyte_sequence', 0) < 100:
        msgs.append('fewer than 100 cuts inside a multi-byte sequence')
    return msgs
