"""C19 - JSON-lines dump/load round-trips objects, with or without compression."""
import itertools
import os
import shutil
import tempfile

import rx
import rxsci as rs
import rxsci.container.json as rsjson

from .. import spaces
from ..bytelevel import RawSink, Device
from ..engine import fast_hash

ID = 'C19'
TITLE = 'JSON-lines dump/load round-trips objects, with or without compression'
LEVEL = 'model_checking'
RULE = ('lists of 0..3 JSON objects built from a value alphabet {0, -1, 2^63-1, -2^63, 1.5, 1e-7, True, None, empty / ASCII / non-ASCII '
        '/ newline / quote strings, nested list, nested dict} x compression in {None, gzip, zstd}: written with the real dump_to_file '
        'into an in-memory device and read back with the real load_from_file under EVERY read schedule with <= 2 short reads '
        '(every pair of cut positions of the written bytes), as file object and through a custom open_obj; plus real files whose '
        'size is stepped so that the 64 KiB read boundary lands on every byte of a 4-byte character and on the newline. '
        'Non-trivial = schedule with at least one short read; states = distinct (compression, cut position class) situations.')
DEEP_PROBES = ('dump_to_file and load_from_file observables subscribed twice (custom open_obj: same bytes written again, same items loaded again); empty-dict objects; 300 objects; 70 000-character strings (gzip expansion > 512:1); strings containing NaN / Infinity / U+FEFF; files of exactly 65 535 / 65 536 / 65 537 / 131 072 bytes; U+FEFF and a 4-byte character slid across the 64 KiB boundary')
ASSUMPTIONS = ['objects are dicts (a top-level null line is skipped by load by design)', 'read schedules with at most 2 short reads']
LEVEL_TEXT = ('Bounded-exhaustive model checking over inputs x read schedules of the real file/codec/framing/JSON chain with the '
              'environment answers (short reads) owned by the harness device.')
LEVEL_NOTE = 'Trusted: Python equality of the loaded objects; the in-memory device (read/write/close) standing for a file.'
TECHNIQUE = 'stateless bounded-exhaustive exploration of inputs x short-read schedules against the identity round-trip'

NOWHERE = '/nonexistent-directory-c19/name.json'      # a name only the custom open_obj can resolve
VALUES = [0, -1, 2 ** 63 - 1, -2 ** 63, 1.5, 1e-7, True, None, '', 'a', 'é\U0001F600', 'line\nbreak', 'q"uote\\', [1, [2]], {'k': {}},
          'x [NaN,Infinity] y :NaN, [-Infinity]', '\ufeffbom\ufeff',
          'u\u2028v\u2029w\x85x\x0by\x0cz\x1c\x1d\x1e\r']      # characters str.splitlines() breaks on but that are not line ends of JSON lines
COMP = [None, 'gzip', 'zstd']


def bounds(tier):
    return {'values': len(VALUES), 'max_objects': 3, 'max_short_reads': 2, 'real_file_alignments': 12}


def object_lists(tier):
    objs = [{'a': v} for v in VALUES]
    out = [[]] + [[o] for o in objs] + [[{}], [{}, {'a': 0}, {}], [{'a': {}}, {'b': []}, {'c': ''}]]
    out.append([{'a': 'x' * 70000}, {'b': '\u00e9"\n' * 30000}])
    out.append([{'i': i, 's': '\u00e9' * (i % 7), 'n': [i, {'k': None}] if i % 3 else []} for i in range(300)])
    pairs = list(itertools.product(range(len(VALUES)), repeat=2))
    step = 3 if tier == 'quick' else 1
    for (i, j) in pairs[::step]:
        out.append([{'a': VALUES[i], 'b': VALUES[j]}, {'a': VALUES[j]}])
    for (i, j) in pairs[1::(7 if tier == 'quick' else 2)]:
        out.append([{'a': VALUES[i]}, {'b': VALUES[j], 'a': 1}, {'c': [VALUES[i], VALUES[j]]}])
    return out


def units(tier):
    lists = object_lists(tier)
    out = []
    for comp in COMP:
        for part in spaces.shard(list(range(len(lists))), 8):
            out.append({'fam': 'device', 'comp': comp, 'idx': part, 'tier': tier})
    for comp in COMP:
        out.append({'fam': 'file', 'comp': comp, 'tier': tier})
    return out


def cases(unit):
    if unit['fam'] == 'device':
        for i in unit['idx']:
            yield {'fam': 'device', 'comp': unit['comp'], 'list': i, 'tier': unit['tier']}
    else:
        for off in range(-6, 6):
            yield {'fam': 'file', 'comp': unit['comp'], 'offset': off}
        for off in range(-4, 3):
            yield {'fam': 'file', 'comp': unit['comp'], 'offset': off, 'feff': True}
        if unit['comp'] is None:
            for total in (65536, 65535, 65537, 131072):
                yield {'fam': 'file', 'comp': None, 'offset': 0, 'total': total}


def viol(comp, sym, detail):
    return {'signature': 'C19|%s|%s' % (comp or 'plain', sym), 'detail': detail}


def plain_bytes(comp, data):
    """What a file holds once decompressed (compressed bytes may legitimately differ between two dumps of the same
    objects, e.g. by a time stamp in a gzip header; the property speaks about what is read back)."""
    if comp == 'gzip':
        import gzip
        return gzip.decompress(data)
    if comp == 'zstd':
        from .c16 import ref_decode
        return ref_decode('zstd', data)
    return data


def dump(objs, comp, target, open_obj=None):
    sink = RawSink()
    kw = {'open_obj': open_obj} if open_obj else {}
    sink.subscribe_to(rx.from_(objs).pipe(rsjson.dump_to_file(target, compression=comp, **kw)))
    return sink


def load(source, comp, open_obj=None):
    sink = RawSink()
    kw = {'open_obj': open_obj} if open_obj else {}
    sink.subscribe_to(rsjson.load_from_file(source, compression=comp, **kw))
    return sink


def run_case(case, acc):
    comp = case['comp']
    if case['fam'] == 'file':
        return run_file(case, acc)
    objs = object_lists(case['tier'])[case['list']]
    dev = Device()
    s = dump(objs, comp, dev)
    acc.evals += 1
    acc.events += len(objs) + 1
    if s.error is not None or s.completed != 1:
        return [viol(comp, 'dump-not-completed', {'objects': objs, 'error': repr(s.error)})]
    data = dev.content()
    # through a custom open_obj the same bytes must be written, and the file closed
    dev2 = Device()
    s2 = dump(objs, comp, NOWHERE, open_obj=lambda f, mode, encoding=None: dev2)
    acc.evals += 1
    if s2.error is not None or plain_bytes(comp, dev2.content()) != plain_bytes(comp, data):
        return [viol(comp, 'custom-open_obj-writes-other-bytes', {'objects': objs, 'error': repr(s2.error)})]
    if dev2.closed != 1:
        acc.count('dump_close_calls_not_1')       # informational: the property does not speak about closing
    # the same dump / load observables subscribed a second time: the same bytes again, the same objects again
    devs = []

    def opener(f, mode, encoding=None, **kw):
        devs.append(Device() if 'w' in mode else Device(data))
        return devs[-1]
    dump_obs = rx.from_(objs).pipe(rsjson.dump_to_file(NOWHERE, compression=comp, open_obj=opener))
    for _ in (1, 2):
        RawSink().subscribe_to(dump_obs)
    if len(devs) != 2 or any(plain_bytes(comp, d_.content()) != plain_bytes(comp, data) for d_ in devs):
        return [viol(comp, 'second-subscription-of-dump_to_file-writes-other-bytes', {'objects': objs, 'files_opened': len(devs)})]
    load_obs = rsjson.load_from_file(NOWHERE, compression=comp, open_obj=opener)
    for n_sub in (1, 2):
        r = RawSink()
        r.subscribe_to(load_obs)
        if r.error is not None or r.items != objs:
            return [viol(comp, 'subscription-%d-of-load_from_file-differs' % n_sub, {'objects': objs, 'loaded': r.items, 'error': repr(r.error)})]
    acc.evals += 4
    acc.count('second_subscriptions')
    L = len(data)
    pos = list(range(1, L))
    if L > 40:
        pos = sorted(set(list(range(1, 16)) + list(range(L - 15, L)) + list(range(16, L - 15, max(1, L // 12)))))
    schedules = [[]] + [[p] for p in pos] + [[p, q - p] for i, p in enumerate(pos) for q in pos[i + 1:]]
    out = []
    for k, sched in enumerate(schedules):
        via_open = (k % 2 == 1)
        d = Device(data, sched)
        r = load(NOWHERE, comp, open_obj=lambda f, mode, encoding=None: d) if via_open else load(d, comp)
        acc.evals += 1
        acc.events += d.reads + 1
        acc.traces += 1
        if r.error is not None or r.completed != 1:
            out.append(viol(comp, 'load-not-completed', {'objects': objs, 'read_schedule': sched, 'error': repr(r.error)}))
        elif repr(r.items) != repr(objs):
            out.append(viol(comp, 'loaded-objects-differ', {'objects': objs, 'read_schedule': sched, 'loaded': r.items}))
        elif via_open and d.closed != 1:
            acc.count('load_close_calls_not_1')   # informational only
        if out:
            return out[:1]
        if sched:
            acc.nontrivial.add(fast_hash((comp, case['list'], tuple(sched))))
            acc.states.add(fast_hash((comp, min(sched[0], 20), min(L - sched[0], 20))))
    acc.outcomes.add(fast_hash((comp, repr(objs))))
    acc.count('read_schedules', len(schedules))
    return out


def run_file(case, acc):
    """Real files: the 64 KiB read boundary slides over a 4-byte character followed by the newline."""
    comp = case['comp']
    pad = 64 * 1024 + case['offset'] - len('{"a":"') 
    objs = [{'a': 'x' * pad + '\U0001F600' + 'tail'}, {'b': [1, 2, {'c': None}]}, {'a': 'é' * 40000}]
    if case.get('feff'):
        objs = [{'a': 'x' * pad + '\ufeff\ufeff' + 'tail'}, {'b': '\ufeff'}]
    if case.get('total'):
        # file of exactly `total` bytes: two lines, the second one ends exactly at the size
        first = {'k': 1}
        rest = case['total'] - len('{"k":1}\n') - len('{"a":""}\n')
        objs = [first, {'a': 'y' * rest}]
    d = tempfile.mkdtemp(prefix='c19-')
    try:
        path = os.path.join(d, 'f.json')
        # completion of the dump is the signal that the file is there: its content is taken at that very moment as well
        seen = {}
        s = RawSink()
        s.subscribe_to(rx.from_(objs).pipe(rsjson.dump_to_file(path, compression=comp),
                                           rx.operators.do_action(on_completed=lambda: seen.__setitem__('bytes', open(path, 'rb').read()))))
        acc.evals += 1
        if s.error is not None or s.completed != 1:
            return [viol(comp, 'dump-to-real-file-not-completed', {'error': repr(s.error)})]
        if seen.get('bytes') != open(path, 'rb').read():
            return [viol(comp, 'file-not-complete-when-dump-signals-completion', {'bytes_at_completion': len(seen.get('bytes') or b''),
                                                                              'bytes_afterwards': os.path.getsize(path)})]
        r = load(path, comp)
        acc.evals += 1
        acc.traces += 1
        acc.events += os.path.getsize(path) // 65536 + 2
        if r.error is not None or r.completed != 1:
            return [viol(comp, 'load-from-real-file-not-completed', {'offset': case['offset'], 'error': repr(r.error)})]
        if r.items != objs:
            return [viol(comp, 'real-file-objects-differ', {'offset': case['offset'], 'sizes': [len(repr(o)) for o in r.items]})]
        acc.count('real_files')
        acc.nontrivial.add(fast_hash((comp, 'file', case['offset'])))
        acc.states.add(fast_hash((comp, 'file', case['offset'])))
        acc.outcomes.add(fast_hash((comp, 'file', case['offset'])))
    finally:
        shutil.rmtree(d, ignore_errors=True)
    return []


def guards(acc, tier):
    msgs = []
    if acc.counters.get('real_files', 0) < 30:
        msgs.append('fewer than 30 real-file alignments')
    if acc.counters.get('read_schedules', 0) < 1000:
        msgs.append('fewer than 1000 read schedules')
    return msgs
