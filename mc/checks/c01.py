"""C01 - multiplexing is transparent: keyed execution equals per-group plain execution."""
import functools
import json

from .. import opspecs, spaces, harness, grammar
from ..drivers import run_raw_mux, lifetimes
from ..engine import fast_hash

ID = 'C01'
TITLE = 'Multiplexing is transparent: keyed execution equals per-group plain execution'
LEVEL = 'model_checking'
RULE = ('programs = every well-typed pipeline of depth 1..3 over the dual-mode operator alphabet (45 operator instances incl. '
        'streaming/reduce/terminator variants) plus tee_map programs (2-3 branches of depth <= 2, three join modes, honouring the '
        'stated restriction); inputs = 1-3 groups of sizes 1..3, two value patterns, EVERY interleaving of the groups\' items. '
        'Two mux drivers: group_by(key, P + tap) through the documented API, and a raw mux stream with sparse key indices where '
        'a group can be delivered as a second lifetime of an index that already completed. Oracle (differential on the real '
        'code): items at the tail tap bucketed per group == items delivered by rx.from_(group items).pipe(*P) built afresh. '
        'Non-trivial = at least two groups whose items interleave.')
DEEP_PROBES = ('the same groups reached through two levels of group_by (several parent keys alive, each with inner groups); every program subscribed twice on the same observable (keyed and plain); flat_map followed by every operator; group keys with equal hashes (-1/-2, 5/5+2^61-1); float states through 0.0 / -0.0 and non-dyadic floats')
ASSUMPTIONS = ['user functions are total and pure; accumulators keep the seed type (typed grammar)',
               'first/last/mean(reduce) on an empty group are outside the property (skipped on whichever side the error shows)',
               'emission time and the order between outputs of different groups are not compared']
LEVEL_TEXT = ('Bounded-exhaustive model checking with a differential oracle over two real code paths: every program of the typed '
              'grammar up to depth 3 x every interleaving of small keyed inputs. A mux operator that keeps per-key state in the '
              'wrong place, resets it late, or forgets a flush differs from its plain counterpart only for particular '
              '(program, interleaving, key-reuse) combinations; the product space is enumerated completely.')
LEVEL_NOTE = 'Trusted: RxPY plain operators as the reference semantics; the typed grammar (mc/grammar.py) for totality.'
TECHNIQUE = 'stateless bounded-exhaustive differential exploration: mux path vs plain path of the same real pipeline'

SKIP_ERRORS = ('SequenceContainsNoElementsError', 'ZeroDivisionError')

SUBFAMILIES = {
    'truthy-predicate': [[['filter', 'truthy_mod2']], [['filter', 'truthy_mod2'], ['count']], [['map', 'inc'], ['filter', 'truthy_mod2']]],
    'assert_1-none-item': [[['map', 'none_if_odd'], ['assert_1', 'first_not_none']],
                           [['map', 'none_if_odd'], ['assert_1', 'first_not_none'], ['count']]],
}
opspecs.FUNCS.setdefault('first_not_none', lambda a, b: a is not None)
SUBFAMILIES['variants'] = [
    [['clip', None, 1]], [['clip', 1, None]], [['clip', None, None]], [['clip', 1, 1], ['count']], [['map', 'tofloat'], ['clip', None, 0.5], ['sum']],
    [['map', 'to_pt'], ['fill_none', 5], ['map', 'pt_sum']], [['map', 'to_pt'], ['fill_none', 0], ['map', 'pt_sum'], ['duc']],
    [['progress_t', 1]], [['progress_t', 2], ['count']], [['scan', 'add', '0'], ['progress_t', 3], ['last']],
    [['to_array', 'd'], ['map', 'len']] if False else [['map', 'tofloat'], ['to_array', 'd']],
]


def inputs(tier):
    """(sizes, order) -> list of group ids in delivery order."""
    out = []
    one = [(1,), (2,), (3,)] + ([(4,)] if tier != 'quick' else [])
    two = [(a, b) for a in range(1, 4) for b in range(1, 4)]
    three = [(1, 1, 1), (2, 1, 1), (1, 2, 1), (1, 1, 2)] + ([(2, 2, 1), (1, 2, 2)] if tier != 'quick' else [])
    for sizes in one + two + three:
        for order in spaces.interleavings(sizes):
            out.append(order)
    return out


def items_of(order, pattern):
    pos = {}
    items = []
    for g in order:
        p = pos.get(g, 0)
        v = (g + p) % 3 if pattern == 0 else (2 - g) % 3
        items.append(10 * g + v)
        pos[g] = p + 1
    return items


RAW_SCHEDULES = [
    # (description, list of (key index, group)) : groups delivered as lifetimes; 'seq' = one after another on the same index
    ('interleaved-sparse', 'inter', [5, 2, 0]),
    ('sequential-reuse', 'seq', [5, 5, 5]),
    ('mixed-reuse', 'mixed', [5, 2, 5]),
]


def bounds(tier):
    return {'programs': len(grammar.programs(tier)), 'inputs': len(inputs(tier)) * 2, 'depth': 3,
            'depth3_alphabet': 'all 45 operator instances' if tier != 'quick' else '12-operator core'}


def units(tier):
    n = len(grammar.programs(tier))
    size = 8 if tier == 'quick' else 24
    out = [{'fam': 'api', 'tier': tier, 'range': [i, min(n, i + size)]} for i in range(0, n, size)]
    out.append({'fam': 'sub', 'tier': tier})
    nraw = len(grammar.pipelines(1)) + len(grammar.pipelines(2)) + (len(grammar.tee_programs()) if tier != 'quick' else 300)
    for i in range(0, nraw, 40):
        out.append({'fam': 'raw', 'tier': tier, 'range': [i, min(nraw, i + 40)]})
    return out


def raw_programs(tier):
    progs = [p for d in (1, 2) for p, _ in grammar.pipelines(d)]
    tees = grammar.tee_programs()
    progs += tees if tier != 'quick' else tees[::len(tees) // 300 + 1][:300]
    return progs


def cases(unit):
    fam = unit['fam']
    if fam == 'api':
        progs = grammar.programs(unit['tier'])
        a, b = unit['range']
        for pi in range(a, b):
            yield {'fam': 'api', 'tier': unit['tier'], 'prog': progs[pi]}
    elif fam == 'sub':
        for name, progs in SUBFAMILIES.items():
            for p in progs:
                yield {'fam': 'api', 'tier': unit['tier'], 'prog': p, 'sub': name}
    else:
        progs = raw_programs(unit['tier'])
        a, b = unit['range']
        for pi in range(a, min(b, len(progs))):
            yield {'fam': 'raw', 'tier': unit['tier'], 'prog': progs[pi]}


def viol(case, sym, detail):
    names = '+'.join(sorted(set(harness.opnames(case['prog']))))
    sub = case.get('sub')
    return {'signature': 'C01|%s|%s|%s' % (sub or case['fam'], names, sym), 'detail': detail,
            'size': len(json.dumps(case['prog'])) * 1000 + len(json.dumps(detail.get('items', detail.get('events', []))))}


def plain_run(prog, items):
    sink, ctx = harness.run_plain(prog, list(items))
    err = type(sink.error).__name__ if sink.error is not None else None
    return [repr(x) for x in sink.items], err, sink.completed, list(ctx.logs.get('da', []))


def empty_precondition(prog, items):
    """The stated precondition of C01: first / last / mean(reduce) are not applied to an empty group.  True when `prog` applies
    one of them to nothing for this group (decided with the reference interpreter on the prefix in front of it, in the
    multiplexed reading where take / first do not end a key), False when not, None when a prefix has no reference model."""
    cur = list(items)
    for o in prog:
        if o[0] in ('first', 'last') or (o[0] == 'mean' and len(o) > 1 and o[1] is True):
            if not cur:
                return True
        if o[0] == 'tee_map':
            inner = [empty_precondition(b, cur) for b in o[2:]]
            if True in inner:
                return True
            if None in inner:
                return None
        if not opspecs.has_model([o]):
            return None
        try:
            cur = harness.model_all([o], cur)
        except Exception:
            return None
    return False


def skip_precondition(prog, groups_items, perr, merr_names):
    """Whether an execution lies outside what C01 states."""
    verdicts = [empty_precondition(prog, gi) for gi in groups_items]
    if True in verdicts:
        return True
    if None in verdicts:
        # no model for some prefix: fall back to the symptom (the by-design exceptions of the plain operators, on either side)
        return any(e in SKIP_ERRORS for e in perr) or any(e in SKIP_ERRORS for e in merr_names)
    return False


def has_early(prog):
    return any(n in ('take', 'first') for n in harness.opnames(prog))


def run_case(case, acc):
    prog = case['prog']
    acc.programs.add(fast_hash(repr(prog)))
    out = []
    plain_cache = {}

    def plain(items):
        key = tuple(items)
        if key not in plain_cache:
            plain_cache[key] = plain_run(prog, items)
            acc.evals += 1
            acc.events += len(items) + 1
        return plain_cache[key]

    # do_action callbacks are comparable when the single do_action is the first operator (it then sees the raw items, which
    # encode their group) and nothing downstream disposes a plain observable early
    compare_da = prog and prog[0][0] == 'do_action' and harness.opnames(prog).count('do_action') == 1 and not has_early(prog)
    if case['fam'] == 'api':
        spec = [['group_by', 'div10', [['tap', 'h']] + prog + [['tap', 't']]]]
        spec_hash = [['group_by', 'div10_hash', [['tap', 'h']] + prog + [['tap', 't']]]]
        reported = set()
        runs = [(order, pattern, spec) for order in inputs(case['tier']) for pattern in (0, 1)]
        # the same with group keys that are distinct but have equal hashes (-1 / -2, 5 / 5 + 2^61 - 1)
        runs += [(order, 0, spec_hash) for order in ([0, 1, 0, 1, 1], [0, 1, 2, 3, 0, 2, 1, 3], [2, 3, 3, 2])]
        # the same groups reached through TWO levels of group_by (parity of the group, then the group): several parent keys are
        # alive at once, each with its own inner groups
        opspecs.FUNCS.setdefault('div10_mod2', lambda x: (x // 10) % 2)
        spec_nested = [['group_by', 'div10_mod2', [['group_by', 'div10', [['tap', 'h']] + prog + [['tap', 't']]]]]]
        runs += [(order, 0, spec_nested) for order in ([0, 1, 2, 3, 0, 2, 1, 3], [0, 1, 0, 1, 2, 2], [1, 0, 3, 2, 1, 0, 3])]
        for order, pattern, spec in runs:
            if True:
                items = items_of(order, pattern)
                groups = {}
                for x in items:
                    groups.setdefault(x // 10, []).append(x)
                sink, ctx, store = harness.run_api(spec, items, track_states=False)
                acc.evals += 1
                acc.events += len(items) + 1
                acc.traces += 1
                plains = {g: plain(gi) for g, gi in groups.items()}
                perr = [p[1] for p in plains.values() if p[1]]
                merr = type(sink.error).__name__ if sink.error is not None else None
                if skip_precondition(prog, list(groups.values()), perr, [merr] if merr else []):
                    acc.skipped += 1
                    continue
                vs = []
                if bool(perr) != bool(merr):
                    vs.append(('one-sided-error-%s' % ('mux' if merr else 'plain'), {'mux_error': merr, 'plain_errors': perr,
                                                                                      'mux_error_repr': repr(sink.error)}))
                elif not merr:
                    if sink.completed != 1:
                        vs.append(('mux-stream-not-completed', {}))
                    # bucket tail items by group (key -> group through the head tap)
                    k2g = {}
                    for ev in ctx.log('h'):
                        if ev[0] == 'n' and ev[1] not in k2g:
                            k2g[ev[1]] = ev[2] // 10
                    got = {g: [] for g in groups}
                    stray = []
                    for ev in ctx.log('t'):
                        if ev[0] == 'n':
                            if ev[1] in k2g:
                                got[k2g[ev[1]]].append(repr(ev[2]))
                            else:
                                stray.append(ev)
                        elif ev[0] == 'e':
                            got.setdefault(k2g.get(ev[1]), []).append(repr(ev[2]))
                    if stray:
                        vs.append(('items-for-unknown-key', {'stray': stray[:3]}))
                    for g in groups:
                        if got[g] != plains[g][0]:
                            kind = harness.diff_kind(plains[g][0], got[g])
                            vs.append(('group-output-%s' % kind, {'group_items': groups[g], 'plain': plains[g][0], 'mux': got[g]}))
                            break
                    if compare_da:
                        log = ctx.logs.get('da', [])
                        for g in groups:
                            if [x for x in log if x // 10 == g] != plains[g][3]:
                                vs.append(('do_action-callbacks-differ', {'mux_log': log, 'plain_log': plains[g][3]}))
                                break
                    if len(groups) > 1 and order != sorted(order):
                        acc.nontrivial.add(fast_hash((repr(prog), tuple(order), pattern)))
                    acc.outcomes.add(fast_hash(repr((prog, ctx.log('t')))))
                else:
                    acc.count('both_sides_error')
                for sym, detail in vs:
                    if sym not in reported:
                        reported.add(sym)
                        detail.update({'program': prog, 'items': items})
                        out.append(viol(case, sym, detail))
        # the same observable subscribed a second time (retry / repeat / a second consumer), keyed and plain: same output again
        # (not for tee_map: its published source cannot be connected a second time at the pinned commit - outside what C01 states)
        for order in ([0, 1, 0, 1, 1], [0, 0, 0]) if 'tee_map' not in harness.opnames(prog) else ():
            items = items_of(order, 0)
            for mux, sp, its in ((True, spec, items), (False, prog, [x for x in items if x // 10 == 0])):
                a, b = harness.run_twice(sp, its, mux=mux)
                acc.evals += 2
                acc.events += 2 * (len(its) + 1)
                acc.traces += 2
                acc.count('second_subscriptions')
                if a.error is None and not harness.same_outcome(a, b) and 'second-subscription' not in reported:
                    reported.add('second-subscription')
                    out.append(viol(case, 'second-subscription-differs-%s' % ('mux' if mux else 'plain'),
                                    {'program': prog, 'items': its, 'first': [a.items, a.status()], 'second': [b.items, b.status()]}))
        return out

    # raw mux driver: sparse indices, second lifetime of a completed index
    reported = set()
    G = [[10, 11, 12], [21, 20], [2]]
    for name, mode, keys in RAW_SCHEDULES:
        if mode == 'inter':
            scheds = []
            for order in spaces.interleavings([len(g) for g in G]):
                ev = [('c', keys[0]), ('c', keys[1]), ('c', keys[2])]
                pos = [0, 0, 0]
                for g in order:
                    ev.append(('n', keys[g], G[g][pos[g]]))
                    pos[g] += 1
                ev += [('d', keys[1]), ('d', keys[0]), ('d', keys[2])]
                scheds.append(ev)
            scheds = scheds[::6]
        elif mode == 'seq':
            ev = []
            for g in range(3):
                ev += [('c', keys[g])] + [('n', keys[g], x) for x in G[g]] + [('d', keys[g])]
            scheds = [ev, [('c', 2), ('n', 2, 7), ('d', 2)] + ev]
        else:
            scheds = []
            for order in spaces.interleavings([len(G[0]), len(G[1])]):
                ev = [('c', 5), ('c', 2)]
                pos = [0, 0]
                for g in order:
                    ev.append(('n', keys[g], G[g][pos[g]]))
                    pos[g] += 1
                ev += [('d', 5), ('c', 5)] + [('n', 5, x) for x in G[2]] + [('d', 2), ('d', 5)]
                scheds.append(ev)
            scheds = scheds[::2]
        for events in scheds:
            ctx = opspecs.Ctx(True)
            sink = run_raw_mux(opspecs.build([['tap', 'h']] + prog + [['tap', 't']], ctx), events)
            acc.evals += 1
            acc.events += len(events) + 1
            acc.traces += 1
            acc.states.update(ctx.states)
            hl, hp = lifetimes(ctx.log('h'))
            tl, tp = lifetimes(ctx.log('t'))
            merr = type(sink.error).__name__ if sink.error is not None else None
            plains = [plain(tuple(l[1])) for l in hl]
            perr = [p[1] for p in plains if p[1]]
            tail_err = [ev[2][1] for ev in ctx.log('t') if ev[0] == 'e']
            if skip_precondition(prog, [list(l[1]) for l in hl], perr, ([merr] if merr else []) + list(tail_err)):
                acc.skipped += 1
                continue
            vs = []
            if bool(perr) != bool(merr or tail_err):
                vs.append(('one-sided-error-%s' % ('mux' if (merr or tail_err) else 'plain'),
                           {'mux_error': merr or tail_err, 'plain_errors': perr}))
            elif not (merr or tail_err):
                if hp or tp or [l[0] for l in hl] != [l[0] for l in tl]:
                    vs.append(('lifecycle-broken', {'head': hp[:3], 'tail': tp[:3]}))
                else:
                    for h, t, p in zip(hl, tl, plains):
                        got = [repr(x) for x in t[1]]
                        if got != p[0]:
                            kind = harness.diff_kind(p[0], got)
                            vs.append(('lifetime-output-%s-%s' % (kind, name), {'lifetime_items': h[1], 'key': h[0], 'plain': p[0], 'mux': got}))
                            break
                acc.outcomes.add(fast_hash(repr((prog, ctx.log('t')))))
            harness.raw_stats(events, acc)
            acc.nontrivial.add(fast_hash((repr(prog), repr(events))))
            for sym, detail in vs:
                if sym not in reported:
                    reported.add(sym)
                    detail.update({'program': prog, 'events': events})
                    out.append(viol(case, sym, detail))
    return out


def guards(acc, tier):
    msgs = []
    for name in ('key_index_reused', 'two_live_keys'):
        if acc.counters.get(name, 0) < 1:
            msgs.append('no execution with %s' % name)
    if len(acc.outcomes) < 1000:
        msgs.append('fewer than 1000 distinct outcomes')
    return msgs
