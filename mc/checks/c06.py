"""C06 - split cuts each key's stream into maximal runs of equal predicate value."""
import itertools

from .. import opspecs, spaces, harness
from ..drivers import run_raw_mux, lifetimes
from ..engine import fast_hash

ID = 'C06'
TITLE = "split cuts each key's stream into maximal runs of equal predicate value"
LEVEL = 'model_checking'
RULE = ('every item sequence up to the length bound over 3 predicate classes whose predicate values are equal but never '
        'identical objects (big ints, run-time strings, int/float pairs that compare equal); split at top level, under '
        'group_by with every interleaving of two keys, nested in roll and in split, and on every well-formed raw-mux event '
        'sequence (empty keys, key reuse). Output and segment lifetimes at the head of the inner pipeline are compared with '
        'itertools.groupby on the predicate value. Non-trivial = at least two segments.')
DEEP_PROBES = ('predicate values with equal hashes, prefix-related tuples, falsy values, items that are == but distinguishable; 20 / 150 live groups')
ASSUMPTIONS = ['predicates are total and pure; predicate values are hashable and compared with != only',
               'lengths and number of classes beyond the bound are not covered']
LEVEL_TEXT = ('Bounded-exhaustive model checking of the real split operator against the maximal-runs definition over all '
              'short sequences, all predicate flavours where == and `is` differ, all nestings named by the property.')
LEVEL_NOTE = 'Trusted: itertools.groupby as the definition of maximal runs; mc/refmodel.py for nested forms.'
TECHNIQUE = 'stateless bounded-exhaustive exploration of the real operator against a maximal-runs reference model'

INNER = [['tap', 'h'], ['to_list'], ['tap', 't']]
PREDS = ['mod10', 'p_big', 'p_str', 'p_mixed', 'p_falsy', 'p_hash', 'p_prefix', 'p_nan']


def bounds(tier):
    return {'max_len': 8 if tier == 'quick' else 10, 'classes': 3, 'predicates': PREDS,
            'raw_depth': 8 if tier == 'quick' else 10}


ENTRY_SPECS = [[['split', 'even', [['to_list']]]], [['split', 'even', [['count', True]]]]]
ENTRY_OTHER = [['split', 'even', [['to_list']]], ['count']]
ENTRY_ITEMS = [[0, 2, 1, 3, 4], [1, 1, 2, 4]]


def units(tier):
    out = []
    out.append({'fam': 'sharedlist'})
    out.append({'fam': 'entry'})
    L = 8 if tier == 'quick' else 10
    nt = 8 if tier == 'quick' else 16
    for p in PREDS:
        for sh in range(nt):
            out.append({'fam': 'top', 'pred': p, 'L': L, 'shard': [sh, nt]})
    Lg = 3 if tier == 'quick' else 4
    sizes = [(a, b) for a in range(1, Lg + 1) for b in range(1, Lg + 1)]
    for p in ('p_big', 'p_mixed'):
        for part in spaces.shard(sizes, 8):
            out.append({'fam': 'grouped', 'pred': p, 'sizes': part})
    Ln = 6 if tier == 'quick' else 8
    for (w, s) in [(2, 1), (2, 2), (3, 2), (1, 2)]:
        out.append({'fam': 'inroll', 'w': w, 's': s, 'L': Ln})
    out.append({'fam': 'insplit', 'L': Ln})
    out.append({'fam': 'many'})
    out.append({'fam': 'eqitems', 'L': 5 if tier == 'quick' else 6})
    d = 8 if tier == 'quick' else 10
    n = 8 if tier == 'quick' else 32
    for keys in ([0, 1], [1, 3]):
        for sh in range(n):
            out.append({'fam': 'raw', 'keys': keys, 'depth': d, 'shard': [sh, n]})
    return out


def cases(unit):
    if unit.get('fam') == 'sharedlist':
        yield {'fam': 'sharedlist'}
        return
    if unit.get('fam') == 'entry':
        # the operator reached through the `sources=` entry point of with_store: two live sources share one store
        for si in range(len(ENTRY_SPECS)):
            for order in spaces.interleavings([len(ENTRY_ITEMS[0]), len(ENTRY_ITEMS[1])]):
                yield {'fam': 'entry', 'spec': si, 'order': order}
        return
    fam = unit['fam']
    if fam == 'top':
        sh, n = unit['shard']
        for i, seq in enumerate(spaces.sequences([0, 1, 2], unit['L'])):
            if i % n == sh:
                yield {'fam': 'top', 'pred': unit['pred'], 'seq': seq}
    elif fam == 'eqitems':
        # items that compare equal (1 == 1.0 == True, 0 == 0.0 == False) but that a pure predicate tells apart
        for idx in spaces.sequences(range(5), unit['L']):
            yield {'fam': 'eqitems', 'idx': idx}
    elif fam == 'many':
        for p in PREDS:
            for nk in (20, 150):
                yield {'fam': 'many', 'pred': p, 'nkeys': nk}
    elif fam == 'grouped':
        for sizes in unit['sizes']:
            for order in spaces.interleavings(sizes):
                for classes in itertools.product([0, 1], repeat=len(order)):
                    yield {'fam': 'grouped', 'pred': unit['pred'], 'order': order, 'classes': list(classes)}
    elif fam in ('inroll', 'insplit'):
        for seq in spaces.sequences([0, 1, 2], unit['L']):
            yield dict(unit, seq=seq)
    elif fam == 'raw':
        sh, n = unit['shard']
        for i, seq in enumerate(spaces.wf_sequences(unit['keys'], [0, 1], unit['depth'])):
            if i % n == sh:
                yield {'fam': 'raw', 'events': [list(e) for e in seq]}


def runs(items, pred):
    """Maximal runs: a new run starts exactly when the predicate value differs (by !=) from that of the previous item.
    (Written out: itertools.groupby takes identical objects as equal, which `!=` does not do for NaN.)"""
    out = []
    prev = None
    for n, x in enumerate(items):
        p = pred(x)
        if n == 0 or p != prev:
            out.append([])
        out[-1].append(x)
        prev = p
    return out


def viol(fam, sym, detail):
    return {'signature': 'C06|%s|%s' % (fam, sym), 'detail': detail}


def run_case(case, acc):
    if case.get('fam') == 'sharedlist':
        # one list object used as the pipeline of two operators
        import rxsci as rs
        d = harness.shared_list_problem(lambda L: rs.data.split(lambda x: x % 2, L), lambda L: rs.data.split(lambda x: x // 3, L), [0, 2, 1, 3, 4, 5, 7])
        acc.evals += 3
        acc.count('shared_pipeline_lists')
        return [viol('sharedlist', 'pipeline-list-shared-by-two-operators', d)] if d else []
    if case.get('fam') == 'entry':
        specs = [ENTRY_SPECS[case['spec']], ENTRY_OTHER]
        acc.evals += 1
        acc.traces += 2
        acc.events += len(case['order']) + 2
        acc.count('sources_entry_point_runs')
        acc.outcomes.add(fast_hash(repr(case)))
        return [viol('entry', 'sources-entry-point-source-%d-segments-%s' % (k, kind), {'pipelines': specs, 'order': case['order'], 'expected': exp, 'observed': got, 'error': err}) for (k, kind, exp, got, err) in harness.sources_problems(specs, ENTRY_ITEMS, case['order'])][:1]
    fam = case['fam']
    if fam == 'raw':
        return run_raw(case, acc)
    out = []
    if fam == 'top':
        items = [10 * i + c for i, c in enumerate(case['seq'])]
        spec = [['split', case['pred'], INNER]]
        exp = runs(items, opspecs.F(case['pred']))
    elif fam == 'grouped':
        pos = {}
        items = []
        for g, c in zip(case['order'], case['classes']):
            items.append(1000 * g + 10 * pos.get(g, 0) + c)
            pos[g] = pos.get(g, 0) + 1
        opspecs.FUNCS.setdefault('div1000', lambda x: x // 1000)
        spec = [['group_by', 'div1000', [['split', case['pred'], INNER]]]]
        exp = None
    elif fam == 'eqitems':
        pool = [1, 1.0, True, 0, 0.0]
        items = [pool[i] for i in case['idx']]
        spec = [['split', 'p_type', [['map', 'p_type_of'], ['to_list']]]]
        opspecs.FUNCS.setdefault('p_type_of', lambda x: type(x).__name__)
        exp = [[opspecs.F('p_type')(x) for x in run_] for run_ in runs(items, opspecs.F('p_type'))]
    elif fam == 'many':
        nk = case['nkeys']
        opspecs.FUNCS['div1000'] = lambda x: x // 1000
        # nk groups alive together; every group gets the class sequence 0,0,1,2,2,0 in interleaved passes
        items = [1000 * g + 10 * p + c for p, c in enumerate([0, 0, 1, 2, 2, 0]) for g in range(nk)]
        spec = [['group_by', 'div1000', [['split', case['pred'], INNER]]]]
        exp = None
    elif fam == 'inroll':
        items = [10 * i + c for i, c in enumerate(case['seq'])]
        spec = [['roll', case['w'], case['s'], [['split', 'p_big', [['to_list']]], ['to_list']]]]
        exp = None
    elif fam == 'insplit':
        items = [10 * i + c for i, c in enumerate(case['seq'])]
        opspecs.FUNCS.setdefault('p_lt2', lambda x: 10 ** 20 + (1 if x % 10 < 2 else 0))
        spec = [['split', 'p_lt2', [['split', 'p_big', INNER], ['to_list']]]]
        exp = None
    else:
        raise ValueError(fam)
    twice = len(items) <= 4
    sink, ctx, store = harness.run_api(spec, items, track_states=True, twice=twice)
    acc.evals += 2 if twice else 1
    acc.events += (len(items) + 1) * (2 if twice else 1)
    acc.traces += 2 if twice else 1
    if twice:
        acc.count('second_subscriptions')
        d = harness.second_problem(sink)
        if d:
            out.append(viol(fam, 'second-subscription-differs', dict(d, spec=spec, items=items)))
    m = harness.model_all(spec, items)
    if exp is not None and m != exp:
        raise AssertionError('refmodel disagrees with groupby definition')
    exp = m
    sp = harness.status_problem(sink)
    if sp:
        out.append(viol(fam, sp, {'spec': spec, 'items': items, 'error': repr(sink.error)}))
    kind = harness.diff_kind(exp, sink.items)
    if kind:
        out.append(viol(fam, 'segments-' + kind, {'spec': spec, 'items': items, 'expected': exp, 'observed': sink.items}))
    if fam == 'top':
        lts, problems = lifetimes(ctx.log('h'))
        if problems:
            out.append(viol(fam, 'segment-lifecycle-broken', {'problems': problems[:5], 'items': items}))
        elif [l[1] for l in lts] != exp or any(not l[2] for l in lts):
            out.append(viol(fam, 'segment-brackets', {'items': items, 'expected': exp, 'lifetimes': lts}))
    if fam == 'grouped':
        if len(set(case['order'])) > 1 and case['order'] != sorted(case['order']):
            acc.count('interleaved_keys')
    if ctx.states:
        acc.states.update(ctx.states)
    acc.outcomes.add(fast_hash(repr(sink.items)))
    if len(exp) >= 2:
        acc.nontrivial.add(fast_hash(repr(case)))
    if fam == 'top' and case['pred'] != 'mod10' and len(exp) < len(items):
        acc.count('run_of_equal_nonidentical_predicates')
    return out


def run_raw(case, acc):
    events = []
    pos = 0
    for e in case['events']:
        if e[0] == 'n':
            events.append(('n', e[1], 10 * pos + e[2]))
            pos += 1
        else:
            events.append(tuple(e))
    ctx = opspecs.Ctx(True)
    sink = run_raw_mux(opspecs.build([['split', 'p_big', INNER]], ctx), events)
    acc.evals += 1
    acc.events += len(events) + 1
    acc.traces += 1
    pred = opspecs.F('p_big')
    exp = []
    cur = {}
    lives = {}
    for ev in events:
        k = (ev[1],)
        if ev[0] == 'c':
            exp.append(('c', k))
            cur[k] = []
            lives[k] = lives.get(k, 0) + 1
            if lives[k] > 1:
                acc.count('key_index_reused')
        elif ev[0] == 'n':
            if cur[k] and pred(cur[k][-1]) != pred(ev[2]):
                exp.append(('n', k, cur[k]))
                cur[k] = []
            cur[k].append(ev[2])
        else:
            if cur[k]:
                exp.append(('n', k, cur[k]))
            else:
                acc.count('empty_key')
            exp.append(('d', k))
            del cur[k]
    out = []
    sp = harness.status_problem(sink)
    if sp:
        out.append(viol('raw', sp, {'events': events}))
    kind = harness.diff_kind(exp, sink.items)
    if kind:
        out.append(viol('raw', 'segments-' + kind, {'events': events, 'expected': exp, 'observed': sink.items}))
    lts, problems = lifetimes(ctx.log('h'))
    if problems:
        out.append(viol('raw', 'segment-lifecycle-broken', {'problems': problems[:5], 'events': events}))
    acc.states.update(ctx.states)
    acc.outcomes.add(fast_hash(repr(sink.items)))
    if len([e for e in exp if e[0] == 'n']) >= 2:
        acc.nontrivial.add(fast_hash(repr(case)))
    return out


def guards(acc, tier):
    msgs = []
    for name in ('interleaved_keys', 'key_index_reused', 'empty_key', 'run_of_equal_nonidentical_predicates'):
        if acc.counters.get(name, 0) < 1:
            msgs.append('no execution with %s' % name)
    if len(acc.outcomes) < 100:
        msgs.append('fewer than 100 distinct outcomes')
    return msgs


def unit_test(case):
    if case['fam'] != 'top':
        return None
    items = [10 * i + c for i, c in enumerate(case['seq'])]
    return harness.unit_test_api([['split', case['pred'], [['to_list']]]], items, runs(items, opspecs.F(case['pred'])))
