"""C13 - item-level errors on multiplexed streams are isolated and routable."""
import itertools

import rx
import rxsci as rs

from .. import opspecs, spaces, harness
from ..drivers import Sink, MuxSink, new_store, tap, mux_events, lifetimes
from ..engine import fast_hash

ID = 'C13'
TITLE = 'Item-level errors on multiplexed streams are isolated and routable'
LEVEL = 'model_checking'
RULE = ('operator in {map, starmap, filter, scan, scan(reduce=True)} whose user function raises on chosen items x handler in {none, ignore, error.map, '
        'error router} x a stateful operator behind the handler {scan, count, last, to_list} x keyed inputs of 1-3 keys with EVERY '
        'interleaving x EVERY subset of failing positions (total length up to the bound); through group_by / with_memory_store and '
        'on raw mux streams with key reuse. Compared per execution: the probe directly behind the operator sees exactly one mux '
        'error per failing item with that item\'s key at that position; the main output equals the model in which failing items are '
        'absent (ignore, router) / replaced in place by the mapped value (error.map); the dead-letter observable receives the '
        'exceptions in source order and completes once with the stream; without handler the subscriber gets the outputs before '
        'the first failure and then on_error with that exception. Non-trivial = at least one failing and one passing item.')
DEEP_PROBES = ('scan with a tuple as state; the dead-letter observable subscribed after the data pipeline (hot source); an unhandled error travelling through each of 25 further operators before it reaches the demultiplexer; scan(reduce=True) as the failing operator; every input of up to 3 items subscribed a second time on the same observable; four exception classes; two error routers in one pipeline, run twice on the same pipeline object; the failing operator in front of group_by / roll / split / time_split')
ASSUMPTIONS = ['handlers are placed directly behind the failing operator (as stated)', 'total input length up to 5 (6 in thorough)']
LEVEL_TEXT = ('Bounded-exhaustive model checking over the fault dimension: every subset of failing positions of every interleaved '
              'keyed input, for each operator/handler pair, against a direct model of "as if the item were absent". A routing '
              'defect (error re-keyed, dropped, duplicated, dead letter not completed) needs a particular failing subset and '
              'interleaving; all are enumerated.')
LEVEL_NOTE = 'Trusted: the 40-line error model in this file and mc/refmodel.py for the operator behind the handler.'
TECHNIQUE = 'stateless bounded-exhaustive exploration with exhaustive fault-subset injection against an error-isolation model'


def _fails(x):
    return (x[1] if isinstance(x, tuple) else x % 10) == 1


class NoArgsError(Exception):
    def __init__(self):
        super().__init__()


def _raise(x):
    """The exception class depends on the item: ValueError / KeyError / StopIteration / an exception without args.
    The failing item travels in the attribute `item` (args are not reliable across classes)."""
    v = x[0] if isinstance(x, tuple) else x
    cls = [ValueError, KeyError, StopIteration, NoArgsError][(v // 10) % 4]
    e = cls() if cls is NoArgsError else cls(x)
    e.item = x
    raise e


def _item_of(e):
    return getattr(e, 'item', None)


def _f_map(x):
    if _fails(x):
        _raise(x)
    return x + 1000


def _f_star(a, b):
    if b == 1:
        _raise((a, b))
    return a + 1000


def _f_filter(x):
    if _fails(x):
        _raise(x)
    return (x // 10) % 2 == 0


def _f_scan(acc, x):
    if _fails(x):
        _raise(x)
    return acc + x


def _f_scan_t(acc, x):
    if _fails(x):
        _raise(x)
    return (acc[0] + x,)


def _mapped(e):
    v = _item_of(e)
    return -(v[0] if isinstance(v, tuple) else v) - 1


def _exc_for(x):
    try:
        _raise(x)
    except Exception as e:
        return e


OPS = {
    'map': (lambda: rs.ops.map(_f_map), lambda x: [_f_map(x)]),
    'starmap': (lambda: rs.ops.starmap(_f_star), lambda x: [_f_star(*x)]),
    'filter': (lambda: rs.ops.filter(_f_filter), lambda x: [x] if _f_filter(x) else []),
    'scan': (lambda: rs.ops.scan(_f_scan, 0), None),
    'scanr': (lambda: rs.ops.scan(_f_scan, 0, reduce=True), None),     # the form the rs.math aggregates use
    'scant': (lambda: rx.pipe(rs.ops.scan(_f_scan_t, (0,)), rs.ops.map(lambda t: t[0])), None),     # a container as seed / state
}
DOWN = {'scan': [['scan', 'add', '0']], 'count': [['count']], 'last': [['last']], 'to_list': [['to_list']], 'none': []}
HANDLERS = ['none', 'ignore', 'map', 'router']
# "an unhandled mux error surfaces as on_error where the stream is demultiplexed": whatever operator it has to travel through
SURFACE = {
    'first': [['first']], 'take1': [['take', 1]], 'take2': [['take', 2]], 'distinct': [['distinct']], 'duc': [['duc']],
    'batch2': [['batch', 2]], 'lag1': [['lag', 1]], 'lag2': [['lag', 2]], 'pad_start': [['pad_start', 1, 0]], 'pad_end': [['pad_end', 1, 0]],
    'start_with': [['start_with', [5]]], 'sum': [['sum']], 'mean_r': [['mean', True]], 'min': [['min']], 'max_r': [['max', True]],
    'variance': [['variance'], ['count']], 'fstddev': [['fstddev'], ['count']], 'to_array': [['to_array', 'q']], 'identity': [['identity']],
    'clip': [['clip', 0, 5000]], 'fill_none': [['fill_none', 5]], 'flat': [['map', 'dup'], ['flat_map']], 'progress': [['progress', 2]],
    'assert': [['assert', 'true']], 'two': [['scan', 'add', '0'], ['last']],
}
BASE_DOWN = list(DOWN)          # the operators placed behind a HANDLER (every handler, every failing subset)
DOWN.update(SURFACE)
# the streaming statistics emit one value per item: behind them only the count is compared (C12 owns the values)
MODEL_AS = {'variance': [['count']], 'fstddev': [['count']]}


def down_model(name):
    return opspecs.model(MODEL_AS.get(name, DOWN[name]))


def bounds(tier):
    return {'max_total_len': 5 if tier == 'quick' else 6, 'keys': [1, 2, 3], 'fault_sets': 'every subset of positions',
            'raw_depth': 6 if tier == 'quick' else 7}


def orders(L):
    out = []
    for n in range(1, L + 1):
        for k in (1, 2, 3):
            for sizes in itertools.product(range(1, n + 1), repeat=k):
                if sum(sizes) == n and list(sizes) == sorted(sizes, reverse=True):
                    out.extend(spaces.interleavings(sizes))
    return out


def units(tier):
    L = 5 if tier == 'quick' else 6
    out = []
    for o in OPS:
        for h in HANDLERS:
            for d in (BASE_DOWN if tier != 'quick' else ['scan', 'count', 'last', 'to_list']):
                out.append({'fam': 'api', 'op': o, 'handler': h, 'down': d, 'L': L})
    for o in ('map', 'filter') if tier == 'quick' else OPS:
        for d in SURFACE:
            out.append({'fam': 'api', 'op': o, 'handler': 'none', 'down': d, 'L': 3 if tier == 'quick' else 4})
    for o in ('map', 'filter', 'scan'):
        for d in ('count', 'last', 'to_list'):
            out.append({'fam': 'api', 'op': o, 'handler': 'mapnone', 'down': d, 'L': 4 if tier == 'quick' else 5})
            out.append({'fam': 'raw', 'op': o, 'handler': 'mapnone', 'down': 'last', 'depth': 5 if tier == 'quick' else 6})
    out.append({'fam': 'routers', 'L': 4 if tier == 'quick' else 5})
    out.append({'fam': 'late', 'L': 4 if tier == 'quick' else 6})
    out.append({'fam': 'branch', 'L': 4 if tier == 'quick' else 5})
    for o in OPS:
        for h in HANDLERS:
            for parent in THROUGH:
                out.append({'fam': 'through', 'op': o, 'handler': h, 'parent': parent, 'L': 4 if tier == 'quick' else 5})
    d = 6 if tier == 'quick' else 7
    for o in OPS:
        for h in HANDLERS[1:]:
            out.append({'fam': 'raw', 'op': o, 'handler': h, 'down': 'scan', 'depth': d})
            out.append({'fam': 'raw', 'op': o, 'handler': h, 'down': 'last', 'depth': d})
    return out


THROUGH = {
    'flat': lambda inner: [],            # the failing operator directly under multiplex / with_store: the error reaches the outer demultiplexer
    'group_by': lambda inner: [['group_by', 'mod10_div2x', inner]],
    'roll21': lambda inner: [['roll', 2, 1, inner]],
    'roll22': lambda inner: [['roll', 2, 2, inner]],
    'split': lambda inner: [['split', 'tens_even', inner]],
    'tsplit': lambda inner: [['time_split', None, None, 'tens_even', True, inner, 'ident']],
}
opspecs.FUNCS.setdefault('mod10_div2x', lambda x: (x // 10) % 2)
opspecs.FUNCS.setdefault('tens_even', lambda x: (x // 10) % 2 == 0)


def cases(unit):
    if unit['fam'] == 'routers':
        # two failing stages, each followed by its own router; every assignment of {ok, fails in stage 1, fails in stage 2}
        for n in range(1, unit['L'] + 1):
            for flags in itertools.product([0, 1, 2], repeat=n):
                yield {'fam': 'routers', 'flags': list(flags)}
        return
    if unit['fam'] == 'branch':
        # the failing operator INSIDE a tee_map branch (first, last, middle of three), handled there or not
        for n in range(1, unit['L'] + 1):
            for flags in itertools.product([0, 1], repeat=n):
                for o in ('map', 'scan'):
                    for h in ('none', 'ignore'):
                        for pos in (0, 1, 2):
                            yield {'fam': 'branch', 'op': o, 'handler': h, 'flags': list(flags), 'pos': pos}
        return
    if unit['fam'] == 'late':
        # a hot source; the dead-letter observable gets its subscriber AFTER the data pipeline was subscribed (before any item)
        for n in range(1, unit['L'] + 1):
            for flags in itertools.product([0, 1], repeat=n):
                for o in ('map', 'scan'):
                    yield {'fam': 'late', 'op': o, 'handler': 'router', 'flags': list(flags)}
                if n <= 3:
                    # the stream itself fails (on_error of the source): the dead letter receives that exception last and completes
                    yield {'fam': 'late', 'op': 'map', 'handler': 'router', 'flags': list(flags), 'end': 'error'}
        return
    if unit['fam'] == 'through':
        for n in range(1, unit['L'] + 1):
            for fs in spaces.subsets(n):
                yield {'fam': 'through', 'op': unit['op'], 'handler': unit['handler'], 'parent': unit['parent'], 'n': n, 'fail': list(fs)}
        return
    if unit['fam'] == 'api':
        for order in orders(unit['L']):
            for fs in spaces.subsets(len(order)):
                yield {'fam': 'api', 'op': unit['op'], 'handler': unit['handler'], 'down': unit['down'], 'order': order, 'fail': list(fs)}
    else:
        for seq in spaces.wf_sequences([0, 1], [0, 1], unit['depth']):
            yield {'fam': 'raw', 'op': unit['op'], 'handler': unit['handler'], 'down': unit['down'], 'events': [list(e) for e in seq]}


def viol(case, sym, detail):
    return {'signature': 'C13|%s|%s|%s' % (case['op'], case['handler'], sym), 'detail': detail}


class OpModel(object):
    """The failing operator on one key: outputs for a passing item."""

    def __init__(self, name):
        self.name = name
        self.acc = 0

    def item(self, x):
        if self.name in ('scan', 'scant'):
            self.acc = _f_scan(self.acc, x)
            return [self.acc]
        if self.name == 'scanr':
            self.acc = _f_scan(self.acc, x)
            return []
        return OPS[self.name][1](x)

    def end(self):
        """Outputs at the completion of the key (the fold of the passing items for reduce=True)."""
        return [self.acc] if self.name == 'scanr' else []


def build_pipeline(case, probe, states=None):
    dead = {'items': [], 'completed': 0, 'error': None}
    ops = [OPS[case['op']][0](), tap(probe, states=states)]
    h = case['handler']
    if h == 'ignore':
        ops.append(rs.error.ignore())
    elif h == 'map':
        ops.append(rs.error.map(_mapped))
    elif h == 'mapnone':
        ops.append(rs.error.map(lambda e: None))         # None is a mapped value like any other: it takes the place of the error
    elif h == 'router':
        errors, route = rs.error.create_error_router()
        errors.subscribe(on_next=lambda e: dead['items'].append(_item_of(e) if isinstance(e, Exception) else repr(e)),
                         on_error=lambda e: dead.__setitem__('error', e),
                         on_completed=lambda: dead.__setitem__('completed', dead['completed'] + 1))
        ops.append(route())
    ops.extend(opspecs.build(DOWN[case['down']]))
    return ops, dead


def run_routers(case, acc):
    """[map(stage 1), router 1, map(stage 2), router 2] on two interleaved keys, run TWICE on the same pipeline object:
    each dead letter gets exactly the exceptions of its own stage, in order, and completes once per run."""
    flags = case['flags']
    items = [100 * (i % 2) + 10 * i + f for i, f in enumerate(flags)]

    def stage(n):
        def f(x):
            if x % 10 == n:
                e = (KeyError if n == 1 else StopIteration)(x)
                e.item = x
                raise e
            return x + 1000
        return f
    dead = [{'items': [], 'completed': 0}, {'items': [], 'completed': 0}]
    routers = [rs.error.create_error_router(), rs.error.create_error_router()]
    ops = [rs.ops.map(stage(1)), routers[0][1](), rs.ops.map(stage(2)), routers[1][1](), rs.ops.count()]
    pipeline = rs.state.with_memory_store([rs.ops.group_by(lambda x: x // 100 % 10, ops)])
    out = []
    want1 = [x for x in items if x % 10 == 1]
    want2 = [x + 1000 for x in items if x % 10 == 2]
    main_want = None
    for run in (1, 2):
        for k in (0, 1):
            d = dead[k]
            d['items'], d['completed'] = [], 0
            routers[k][0].subscribe(on_next=lambda e, d=d: d['items'].append(getattr(e, 'item', repr(e))),
                                    on_completed=lambda d=d: d.__setitem__('completed', d['completed'] + 1))
        sink = Sink()
        sink.subscribe_to(rx.from_(items).pipe(pipeline))
        acc.evals += 1
        acc.events += len(items) + 1
        acc.traces += 1
        tag = '' if run == 1 else '-on-second-run'
        if sink.error is not None or sink.completed != 1:
            out.append({'signature': 'C13|two-routers|main-stream-not-completed%s' % tag, 'detail': {'items': items, 'error': repr(sink.error)}})
        if main_want is None:
            main_want = sink.items
            counts, model_out = {}, []
            for x in items:                    # count() behind both routers: one running count per item that passes both stages
                if x % 10 == 0:
                    g = x // 100 % 10
                    counts[g] = counts.get(g, 0) + 1
                    model_out.append(counts[g])
            if sink.items != model_out:
                out.append({'signature': 'C13|two-routers|main-output-' + str(harness.diff_kind(model_out, sink.items)),
                            'detail': {'items': items, 'expected': model_out, 'observed': sink.items}})
        elif sink.items != main_want:
            out.append({'signature': 'C13|two-routers|main-output-differs%s' % tag, 'detail': {'items': items, 'first': main_want, 'second': sink.items}})
        for k, want in ((0, want1), (1, want2)):
            if dead[k]['items'] != want:
                out.append({'signature': 'C13|two-routers|dead-letter-%d-%s%s' % (k + 1, harness.diff_kind(want, dead[k]['items']), tag),
                            'detail': {'items': items, 'expected': want, 'observed': dead[k]['items'], 'other': dead[1 - k]['items']}})
            if dead[k]['completed'] != 1:
                out.append({'signature': 'C13|two-routers|dead-letter-%d-not-completed-once%s' % (k + 1, tag),
                            'detail': {'items': items, 'completed': dead[k]['completed']}})
        if out:
            break
    acc.count('two_router_runs')
    acc.outcomes.add(fast_hash(repr((flags, main_want))))
    if 1 in flags and 2 in flags:
        acc.nontrivial.add(fast_hash(repr(case)))
    return out[:3]


def run_through(case, acc):
    """[OP, HANDLER, parent(DOWN)] under with_memory_store: the mux error is produced in front of a higher-order
    operator; handled directly behind the operator the stream continues as if the item were absent, unhandled it
    surfaces as on_error of the subscriber after the outputs that precede the failure."""
    star = case['op'] == 'starmap'
    fail = set(case['fail'])
    n = case['n']
    h = case['handler']
    items = []
    for i in range(n):
        base = 10 * i
        items.append((base, 1 if i in fail else 0) if star else base + (1 if i in fail else 0))
    probe = []
    ops, dead = build_pipeline(dict(case, down='none'), probe)
    inner_spec = [['to_list']]
    # values reaching the parent: map -> x+1000 etc.; use an order-insensitive but value-sensitive inner pipeline
    parent_spec = THROUGH[case['parent']](inner_spec)
    ops = ops + opspecs.build(parent_spec)
    store = new_store()
    sink = Sink()
    observable = rx.from_(items).pipe(rs.state.with_store(store, ops))
    sink.subscribe_to(observable)
    acc.evals += 1
    acc.events += n + 1
    acc.traces += 1
    again = None
    if h != 'router' and n <= 3:
        again = Sink()
        again.subscribe_to(observable)
        acc.evals += 1
        acc.events += n + 1
        acc.traces += 1
        acc.count('second_subscriptions')
    m = opspecs.model(parent_spec)
    om = OpModel(case['op'])
    exp = []
    first_fail = min(fail) if fail else None
    broke = False
    for i, x in enumerate(items):
        if i in fail:
            if h == 'none':
                broke = True
                break
            if h in ('map', 'mapnone'):
                exp.extend(m.item(_mapped(_exc_for(x)) if h == 'map' else None))
            continue
        for y in om.item(x):
            exp.extend(m.item(y))
    if not broke:
        for y in om.end():
            exp.extend(m.item(y))
        exp.extend(m.end())
    out = []
    if broke:
        bad = items[first_fail]
        if sink.error is None:
            out.append(viol(case, 'through-%s-unhandled-error-not-surfaced' % case['parent'], {'items': items, 'status': sink.status()}))
        elif not (isinstance(sink.error, Exception) and _item_of(sink.error) == bad):
            out.append(viol(case, 'through-%s-wrong-exception-surfaced' % case['parent'], {'items': items, 'error': repr(sink.error)}))
    else:
        sp = harness.status_problem(sink)
        if sp:
            out.append(viol(case, 'through-%s-%s' % (case['parent'], sp), {'items': items, 'error': repr(sink.error)}))
    if again is not None and (repr(again.items) != repr(sink.items) or again.completed != sink.completed or
                              (type(again.error), _item_of(again.error)) != (type(sink.error), _item_of(sink.error))):
        out.append(viol(case, 'through-%s-second-subscription-differs' % case['parent'],
                        {'items': items, 'failing_positions': sorted(fail), 'first': [sink.items, sink.status()], 'second': [again.items, again.status()]}))
    if case['parent'] == 'tsplit':      # windows that time_split opens eagerly and that stay empty are not specified
        exp = [w for w in exp if w != []]
        sink.items = [w for w in sink.items if w != []]
    kind = harness.diff_kind(exp, sink.items)
    if kind:
        out.append(viol(case, 'through-%s-main-output-%s' % (case['parent'], kind),
                        {'items': items, 'failing_positions': sorted(fail), 'expected': exp, 'observed': sink.items}))
    if h == 'router':
        exp_dead = [items[i] for i in sorted(fail)]
        if dead['items'] != exp_dead or dead['completed'] != 1:
            out.append(viol(case, 'through-%s-dead-letter' % case['parent'], {'items': items, 'expected': exp_dead, 'observed': dead['items'],
                                                                             'completed': dead['completed']}))
    acc.outcomes.add(fast_hash(repr((case['op'], h, case['parent'], sink.items, sink.status()))))
    if fail and len(fail) < n:
        acc.nontrivial.add(fast_hash(repr(case)))
    return out


def run_branch(case, acc):
    flags, h, pos = case['flags'], case['handler'], case['pos']
    items = [10 * i + f for i, f in enumerate(flags)]
    failing = [OPS[case['op']][0]()] + ([rs.error.ignore()] if h == 'ignore' else []) + [rs.ops.count()]
    branches = [[rs.ops.count()], [rs.ops.count()]]
    if pos == 2:
        branches = [[rs.ops.count()], failing, [rs.ops.map(lambda x: -x)]]
    else:
        branches[pos] = failing
    sink = Sink()
    sink.subscribe_to(rx.from_(items).pipe(rs.state.with_memory_store([rs.ops.tee_map(*branches, join='merge')])))
    acc.evals += 1
    acc.events += len(items) + 1
    acc.traces += 1
    acc.count('failing_operator_inside_a_tee_map_branch')
    # merge: per source item the outputs of the branches in branch order
    exp, n_all, n_ok = [], 0, 0
    first_fail = flags.index(1) if 1 in flags else None
    for i, x in enumerate(items):
        n_all += 1
        ok = not flags[i]
        if ok:
            n_ok += 1
        row = []
        for b in range(len(branches)):
            is_failing = b == (1 if pos == 2 else pos)          # pos 2: the failing branch is the middle one of three
            if is_failing:
                if ok:
                    row.append(n_ok)
                elif h == 'none':
                    row.append('STOP')
            elif pos == 2 and b == 2:
                row.append(-x)
            else:
                row.append(n_all)
        if 'STOP' in row:
            exp.extend(row[:row.index('STOP')])
            break
        exp.extend(row)
    out = []
    if h == 'none' and first_fail is not None:
        if sink.error is None or _item_of(sink.error) != items[first_fail] or sink.completed:
            out.append(viol(case, 'error-inside-tee_map-branch-%d-not-surfaced' % pos, {'items': items, 'status': sink.status(), 'emitted': sink.items}))
        elif sink.items != exp:
            out.append(viol(case, 'outputs-before-the-error-inside-a-branch-' + str(harness.diff_kind(exp, sink.items)), {'items': items, 'expected': exp, 'observed': sink.items}))
    else:
        if sink.error is not None or sink.completed != 1:
            out.append(viol(case, 'branch-%d-stream-not-completed' % pos, {'items': items, 'error': repr(sink.error)}))
        elif sink.items != exp:
            out.append(viol(case, 'branch-%d-main-output-%s' % (pos, harness.diff_kind(exp, sink.items)), {'items': items, 'expected': exp, 'observed': sink.items}))
    acc.outcomes.add(fast_hash(repr((case, sink.items))))
    return out


def run_late(case, acc):
    from rx.subject import Subject
    flags = case['flags']
    items = [100 * (i % 2) + 10 * i + f for i, f in enumerate(flags)]
    errors, route = rs.error.create_error_router()
    ops = [OPS[case['op']][0](), route(), rs.ops.count()]
    src = Subject()
    sink = Sink()
    sink.subscribe_to(src.pipe(rs.state.with_memory_store([rs.ops.group_by(lambda x: x // 100 % 10, ops)])))
    dead = {'items': [], 'completed': 0, 'error': None}
    errors.subscribe(on_next=lambda e: dead['items'].append(_item_of(e) if isinstance(e, Exception) else repr(e)),
                     on_error=lambda e: dead.__setitem__('error', e),
                     on_completed=lambda: dead.__setitem__('completed', dead['completed'] + 1))
    for x in items:
        src.on_next(x)
    boom = None
    if case.get('end') == 'error':
        boom = RuntimeError('source failed')
        boom.item = 'source-failure'
        src.on_error(boom)
    else:
        src.on_completed()
    acc.evals += 1
    acc.events += len(items) + 1
    acc.traces += 1
    acc.count('dead_letter_subscribed_after_the_pipeline')
    out = []
    want_dead = [x for x in items if x % 10 == 1]
    want_main = []
    for g in (0, 1):
        n_ok = [x for x in items if x // 100 % 10 == g and x % 10 != 1]
        if any(x // 100 % 10 == g for x in items):
            want_main.append((g, len(n_ok)))
    # groups complete in order of first appearance; count() emits one running count per passing item
    exp = []
    counts = {}
    for x in items:
        g = x // 100 % 10
        if x % 10 != 1:
            counts[g] = counts.get(g, 0) + 1
            exp.append(counts[g])
    if boom is not None:
        if sink.error is not boom or sink.completed:
            out.append(viol(case, 'source-failure-not-surfaced-as-on_error', {'items': items, 'status': sink.status()}))
        elif sink.items != exp:
            out.append(viol(case, 'main-output-before-source-failure-' + str(harness.diff_kind(exp, sink.items)), {'items': items, 'expected': exp, 'observed': sink.items}))
    elif sink.error is not None or sink.completed != 1:
        out.append(viol(case, 'late-dead-letter-main-stream-not-completed', {'items': items, 'error': repr(sink.error)}))
    elif sink.items != exp:
        out.append(viol(case, 'late-dead-letter-main-output-' + str(harness.diff_kind(exp, sink.items)), {'items': items, 'expected': exp, 'observed': sink.items}))
    if boom is not None:
        # "completes with the stream": when the stream ends with a failure of the source, the dead letter has received the
        # item-level exceptions in order and is terminated as well - whether it also receives the source's exception (as an
        # item, as the pinned commit does, or as its own on_error) is not stated
        got_dead = dead['items'][:-1] if dead['items'][-1:] == ['source-failure'] else dead['items']
        if got_dead != want_dead:
            out.append(viol(case, 'late-dead-letter-' + str(harness.diff_kind(want_dead, got_dead)), {'items': items, 'expected': want_dead, 'observed': dead['items']}))
        if dead['completed'] + (1 if dead['error'] is not None else 0) != 1:
            out.append(viol(case, 'dead-letter-not-terminated-with-the-failed-stream', {'items': items, 'completed': dead['completed'], 'error': repr(dead['error'])}))
        acc.outcomes.add(fast_hash(repr((case['op'], flags, sink.items, dead['items']))))
        return out
    if dead['items'] != want_dead:
        out.append(viol(case, 'late-dead-letter-' + str(harness.diff_kind(want_dead, dead['items'])), {'items': items, 'expected': want_dead, 'observed': dead['items']}))
    if dead['completed'] != 1 or dead['error'] is not None:
        out.append(viol(case, 'late-dead-letter-not-completed-once', {'items': items, 'completed': dead['completed'], 'error': repr(dead['error'])}))
    acc.outcomes.add(fast_hash(repr((case['op'], flags, sink.items, dead['items']))))
    return out


def run_case(case, acc):
    if case['fam'] == 'late':
        return run_late(case, acc)
    if case['fam'] == 'branch':
        return run_branch(case, acc)
    if case['fam'] == 'raw':
        return run_raw(case, acc)
    if case['fam'] == 'through':
        return run_through(case, acc)
    if case['fam'] == 'routers':
        return run_routers(case, acc)
    order, fail = case['order'], set(case['fail'])
    star = case['op'] == 'starmap'
    pos = {}
    items = []
    for i, g in enumerate(order):
        p = pos.get(g, 0)
        pos[g] = p + 1
        base = 100 * g + 10 * p
        items.append((base, 1 if i in fail else 0) if star else base + (1 if i in fail else 0))
    probe = []
    states = set()
    ops, dead = build_pipeline(case, probe, states)
    keyf = (lambda t: t[0] // 100) if star else (lambda x: x // 100)
    if len(set(order)) > 1 or True:
        pipeline = [rs.ops.group_by(keyf, ops)]
    store = new_store()
    sink = Sink()
    observable = rx.from_(items).pipe(rs.state.with_store(store, pipeline))
    sink.subscribe_to(observable)
    acc.evals += 1
    acc.events += len(items) + 1
    acc.traces += 1
    acc.states.update(states)
    out = []
    h = case['handler']
    if h != 'router' and len(items) <= 3:
        # the same observable subscribed again (retry / repeat / a second consumer): same items, same error, same completion
        n_probe = len(probe)
        again = Sink()
        again.subscribe_to(observable)
        del probe[n_probe:]
        acc.evals += 1
        acc.events += len(items) + 1
        acc.traces += 1
        acc.count('second_subscriptions')
        if repr(again.items) != repr(sink.items) or again.completed != sink.completed or \
                (type(again.error), _item_of(again.error)) != (type(sink.error), _item_of(sink.error)):
            out.append(viol(case, 'second-subscription-differs', {'items': items, 'failing_positions': sorted(fail),
                                                                  'first': [sink.items, sink.status()], 'second': [again.items, again.status()]}))
    # ---- probe: one mux error per failing item, right key, right position
    first_fail = min(fail) if fail else None
    upto = len(items) if h != 'none' or first_fail is None else first_fail + 1
    k_of_group = {}
    exp_probe = []
    models = {}
    for i, x in enumerate(items[:upto]):
        g = order[i]
        if g not in k_of_group:
            k_of_group[g] = len(k_of_group)
        m = models.setdefault(g, OpModel(case['op']))
        if i in fail:
            exp_probe.append(('e', g))
        else:
            for _ in m.item(x):
                exp_probe.append(('n', g))
    if h != 'none' or first_fail is None:
        for g in k_of_group:                     # groups complete in order of first appearance
            for _ in models[g].end():
                exp_probe.append(('n', g))
    got_probe = []
    key2g = {}
    for ev in probe:
        if ev[0] == 'c':
            key2g[ev[1]] = len(key2g)
        elif ev[0] in ('n', 'e'):
            got_probe.append((ev[0], key2g.get(ev[1])))
    exp_probe_idx = [(t, k_of_group[g]) for t, g in exp_probe]
    if got_probe != exp_probe_idx:
        out.append(viol(case, 'probe-' + str(harness.diff_kind(exp_probe_idx, got_probe)),
                        {'items': items, 'failing_positions': sorted(fail), 'expected_probe': exp_probe_idx, 'observed_probe': got_probe}))
    # ---- main output model
    models = {}
    downs = {}
    gorder = []
    exp = []
    for i, x in enumerate(items):
        g = order[i]
        if g not in downs:
            downs[g] = down_model(case['down'])
            models[g] = OpModel(case['op'])
            gorder.append(g)
        if i in fail:
            if h == 'none':
                break
            if h in ('map', 'mapnone'):
                exp.extend(downs[g].item(_mapped(_exc_for(x)) if h == 'map' else None))
            continue
        for y in models[g].item(x):
            exp.extend(downs[g].item(y))
    else:
        for g in gorder:
            for y in models[g].end():
                exp.extend(downs[g].item(y))
            exp.extend(downs[g].end())
    if h == 'none' and fail:
        bad = items[first_fail]
        if sink.error is None:
            out.append(viol(case, 'unhandled-error-not-surfaced', {'items': items, 'failing_positions': sorted(fail), 'status': sink.status()}))
        elif not (isinstance(sink.error, Exception) and _item_of(sink.error) == bad):
            out.append(viol(case, 'wrong-exception-surfaced', {'items': items, 'failing_positions': sorted(fail), 'error': repr(sink.error)}))
        if sink.completed:
            out.append(viol(case, 'completed-after-error', {'items': items}))
    else:
        sp = harness.status_problem(sink)
        if sp:
            out.append(viol(case, sp, {'items': items, 'failing_positions': sorted(fail), 'error': repr(sink.error)}))
    kind = harness.diff_kind(exp, sink.items)
    if kind:
        out.append(viol(case, 'main-output-' + kind, {'items': items, 'failing_positions': sorted(fail), 'down': case['down'],
                                                    'expected': exp, 'observed': sink.items}))
    if h == 'router':
        exp_dead = [items[i] for i in sorted(fail)]
        if dead['items'] != exp_dead:
            out.append(viol(case, 'dead-letter-' + str(harness.diff_kind(exp_dead, dead['items'])),
                            {'items': items, 'expected_dead_letter': exp_dead, 'observed': dead['items']}))
        if dead['completed'] != 1 or dead['error'] is not None:
            out.append(viol(case, 'dead-letter-not-completed-once', {'items': items, 'completed': dead['completed'], 'error': repr(dead['error'])}))
    acc.outcomes.add(fast_hash(repr((case['op'], h, case['down'], sink.items, sink.status()))))
    if fail and len(fail) < len(items):
        acc.nontrivial.add(fast_hash(repr(case)))
    if len(set(order)) > 1 and order != sorted(order):
        acc.count('interleaved_keys')
    if len(fail) >= 2:
        acc.count('several_failing_items')
    return out


def run_raw(case, acc):
    star = case['op'] == 'starmap'
    events = []
    n = 0
    for e in case['events']:
        if e[0] == 'n':
            base = 100 * e[1] + 10 * (n % 10)
            n += 1
            events.append(('n', e[1], (base, e[2]) if star else base + e[2]))
        else:
            events.append(tuple(e))
    probe = []
    states = set()
    ops, dead = build_pipeline(case, probe, states)
    store = new_store()
    sink = MuxSink()
    sink.subscribe_to(rx.from_(mux_events(events, store)).pipe(rs.cast_as_mux_observable(), rs.state.with_store(store, ops)))
    acc.evals += 1
    acc.events += len(events) + 1
    acc.traces += 1
    acc.states.update(states)
    h = case['handler']
    out = []

    class Life(object):
        def __init__(self):
            self.m = OpModel(case['op'])
            self.d = down_model(case['down'])

        def item(self, x):
            if _fails(x):
                return self.d.item(_mapped(_exc_for(x)) if h == 'map' else None) if h in ('map', 'mapnone') else []
            o = []
            for y in self.m.item(x):
                o.extend(self.d.item(y))
            return o

        def end(self):
            o = []
            for y in self.m.end():
                o.extend(self.d.item(y))
            return o + self.d.end()
    exp = harness.expected_raw(Life, events)
    sp = harness.status_problem(sink)
    if sp:
        out.append(viol(case, 'raw-' + sp, {'events': events, 'error': repr(sink.error)}))
    kind = harness.diff_kind(exp, sink.items)
    if kind:
        out.append(viol(case, 'raw-main-output-' + kind, {'events': events, 'down': case['down'], 'expected': exp, 'observed': sink.items}))
    if case['op'] == 'scanr':
        exp_probe = [('e', (e[1],)) if e[0] == 'n' else ('n', (e[1],)) for e in events if (e[0] == 'n' and _fails(e[2])) or e[0] == 'd']
    else:
        exp_probe = [('e' if _fails(e[2]) else 'n', (e[1],)) for e in events if e[0] == 'n' and (_fails(e[2]) or case['op'] != 'filter' or _f_filter(e[2]))]
    got_probe = [(ev[0], ev[1]) for ev in probe if ev[0] in ('n', 'e')]
    if got_probe != exp_probe:
        out.append(viol(case, 'raw-probe-' + str(harness.diff_kind(exp_probe, got_probe)), {'events': events, 'expected_probe': exp_probe,
                                                                                           'observed_probe': got_probe}))
    if h == 'router':
        exp_dead = [e[2] for e in events if e[0] == 'n' and _fails(e[2])]
        if dead['items'] != exp_dead:
            out.append(viol(case, 'raw-dead-letter-' + str(harness.diff_kind(exp_dead, dead['items'])),
                            {'events': events, 'expected_dead_letter': exp_dead, 'observed': dead['items']}))
        if dead['completed'] != 1:
            out.append(viol(case, 'raw-dead-letter-not-completed-once', {'events': events, 'completed': dead['completed']}))
    harness.raw_stats(events, acc)
    acc.outcomes.add(fast_hash(repr((case['op'], h, case['down'], sink.items))))
    return out


def guards(acc, tier):
    msgs = []
    for name in ('interleaved_keys', 'several_failing_items', 'key_index_reused'):
        if acc.counters.get(name, 0) < 1:
            msgs.append('no execution with %s' % name)
    if len(acc.outcomes) < 300:
        msgs.append('fewer than 300 distinct outcomes')
    return msgs
