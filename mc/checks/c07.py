"""C07 - time_split sessions respect active/inactive timeouts and closing items."""
import datetime
import itertools

from .. import opspecs, spaces, harness
from ..drivers import lifetimes
from ..engine import fast_hash

ID = 'C07'
TITLE = 'time_split sessions respect active/inactive timeouts and closing items'
LEVEL = 'model_checking'
RULE = ('every non-decreasing timestamp sequence built from gaps {0,1,2,3} (gaps equal to, one below and one above each '
        'timeout) x closing flag per item, up to the length bound x every configuration (active in {None,3}, inactive in '
        '{None,2}, closing_mapper present/absent, include_closing_item True/False), with integer and datetime/timedelta '
        'timestamps, at top level and under group_by with every interleaving of two keys. The sequence of non-empty windows '
        '(output of to_list and lifetimes at the head of the inner pipeline) is compared with the two-inequality session '
        'model. Non-trivial = at least two windows.')
DEEP_PROBES = ('datetime gaps of a day and more, fractional-second gaps and timeouts, 4 200 live keys')
ASSUMPTIONS = ['timestamps are non-decreasing per key (stated by the property)',
               'empty windows opened eagerly by the implementation are not compared (the property does not speak about them)',
               'timeouts other than 3 (active) and 2 (inactive) and gaps above 3 are not covered']
LEVEL_TEXT = ('Bounded-exhaustive model checking of the real time_split operator against a direct transcription of the '
              'property (two inequalities + closing rule) over all short timestamp/closing-flag histories and the complete '
              'configuration grid; boundary gaps (exactly a timeout) are in the alphabet by construction.')
LEVEL_NOTE = 'Trusted: the 30-line session model in this file (cross-checked against mc/refmodel.TimeSplit on every case).'
TECHNIQUE = 'stateless bounded-exhaustive exploration of the real operator against a session reference model'

INNER = [['tap', 'h'], ['to_list'], ['tap', 't']]
CONFIGS = [(a, i, c, inc) for a in (None, 3) for i in (None, 2) for c in (None, 'closing_mod10') for inc in (True, False)
           if not (c is None and inc is False)]
# a timeout of zero is a timeout (every item is "at least 0 after" its reference), not the absence of one
CONFIGS += [(0, None, None, True), (None, 0, None, True), (0, 2, 'closing_mod10', True), (3, 0, 'closing_mod10', False)]

EPOCH = datetime.datetime(2020, 1, 1)
opspecs.FUNCS.setdefault('ts_dt', lambda x: EPOCH + datetime.timedelta(seconds=(x // 10) % 100))
opspecs.FUNCS.setdefault('ts_int', lambda x: (x // 10) % 100)
opspecs.FUNCS.setdefault('div1000', lambda x: x // 1000)


def _dt_build(c, active, inactive, closing, include, p):
    import rxsci as rs
    td = lambda v: None if v is None else datetime.timedelta(seconds=v)
    return rs.data.time_split(time_mapper=opspecs.F('ts_dt'), active_timeout=td(active), inactive_timeout=td(inactive),
                              closing_mapper=opspecs.F(closing), include_closing_item=include, pipeline=opspecs.sub(c, p))


opspecs.op('time_split_dt', _dt_build,
           lambda active, inactive, closing, include, p: opspecs.OPS['time_split']['model'](active, inactive, closing, include, p, 'ts_int'))


def bounds(tier):
    return {'gaps': [0, 1, 2, 3], 'max_len': 5 if tier == 'quick' else 7, 'configs': len(CONFIGS),
            'grouped_per_key_len': 3}


def sessions(items, ts, closing, active, inactive, cm, include):
    """Direct transcription of the property: list of non-empty windows."""
    wins = []
    cur = None
    ref = last = None
    for x in items:
        t = ts(x)
        if ref is None:
            ref = last = t
        expired = (active is not None and t >= ref + active) or (inactive is not None and t >= last + inactive)
        if expired:
            cur = [x]
            wins.append(cur)
            ref = last = t
        elif cm and closing(x):
            ref = last = t
            if include:
                if cur is None:
                    cur = []
                    wins.append(cur)
                cur.append(x)
                cur = None
            else:
                cur = [x]
                wins.append(cur)
        else:
            last = t
            if cur is None:
                cur = []
                wins.append(cur)
            cur.append(x)
    return wins


def units(tier):
    out = []
    out.append({'fam': 'sharedlist'})
    L = 5 if tier == 'quick' else 7
    for ci in range(len(CONFIGS)):
        for dt in (False, True):
            if dt and tier == 'quick' and ci % 3:
                continue
            for sh in range(2 if tier == 'quick' else 8):
                Lc = L - (2 if (dt and tier != 'quick') else (1 if dt else 0)) - (1 if CONFIGS[ci][2] is not None else 0)
                out.append({'fam': 'top', 'cfg': ci, 'dt': dt, 'L': Lc, 'shard': [sh, 2 if tier == 'quick' else 8]})
    out.append({'fam': 'probe', 'tier': tier})
    for ci in range(len(CONFIGS)):
        if tier == 'quick' and CONFIGS[ci][0] is None and CONFIGS[ci][1] is None:
            continue
        for sh in range(2 if tier == 'quick' else 8):
            out.append({'fam': 'grouped', 'cfg': ci, 'Lk': 2 if tier == 'quick' else 3, 'shard': [sh, 2 if tier == 'quick' else 8]})
            # the same histories under two levels of group_by: two outer groups, each with an inner group of the same key value
            # (group indices must be unique per store, not per parent)
            out.append({'fam': 'nested', 'cfg': ci, 'Lk': 2, 'shard': [sh, 2 if tier == 'quick' else 8]})   # per-key length 2 in both tiers (cost)
    return out


def _histories(L, closing):
    flags = [0, 1] if closing else [0]
    for n in range(0, L + 1):
        for gaps in itertools.product([0, 1, 2, 3], repeat=n):
            for fl in itertools.product(flags, repeat=n):
                yield list(gaps), list(fl)


def cases(unit):
    if unit.get('fam') == 'sharedlist':
        yield {'fam': 'sharedlist'}
        return
    if unit['fam'] == 'probe':
        # gaps of a day and more (datetime arithmetic), fractional-second gaps and timeouts, thousands of live keys
        for gaps in itertools.product([1, 86400, 86401, 172799, 3], repeat=4):
            yield {'fam': 'days', 'gaps': list(gaps)}
        # fractional seconds; dyadic values, so that `t >= ref + timeout` and `t - ref >= timeout` are the same test in floats
        for gaps in itertools.product([0.125, 0.75, 0.25, 0.0], repeat=5):
            yield {'fam': 'floats', 'gaps': list(gaps)}
        yield {'fam': 'manykeys', 'keys': 4200}
        return
    a, i, c, inc = CONFIGS[unit['cfg']]
    sh, n = unit['shard']
    if unit['fam'] == 'top':
        for idx, (gaps, fl) in enumerate(_histories(unit['L'], c is not None)):
            if idx % n == sh:
                yield {'fam': 'top', 'cfg': unit['cfg'], 'dt': unit['dt'], 'gaps': gaps, 'flags': fl}
    else:
        Lk = unit['Lk']
        idx = 0
        for sizes in [(x, y) for x in range(1, Lk + 1) for y in range(1, Lk + 1)]:
            for order in spaces.interleavings(sizes):
                for gaps in itertools.product([0, 2, 3], repeat=len(order)):
                    for fl in itertools.product([0, 1] if c is not None else [0], repeat=len(order)):
                        idx += 1
                        if idx % n == sh:
                            yield {'fam': unit['fam'], 'cfg': unit['cfg'], 'order': order, 'gaps': list(gaps), 'flags': list(fl)}


def viol(fam, sym, detail):
    return {'signature': 'C07|%s|%s' % (fam, sym), 'detail': detail}


def run_probe(case, acc):
    import rx
    import rxsci as rs
    from ..bytelevel import RawSink
    fam = case['fam']
    out = []
    if fam in ('days', 'floats'):
        if fam == 'days':
            ts, t = [], EPOCH
            for g in case['gaps']:
                t = t + datetime.timedelta(seconds=g)
                ts.append(t)
            cfgs = [(datetime.timedelta(seconds=3), None), (None, datetime.timedelta(seconds=2)),
                    (datetime.timedelta(days=1), datetime.timedelta(seconds=2)), (None, datetime.timedelta(hours=25))]
        else:
            ts, t = [], 0.0
            for g in case['gaps']:
                t = t + g
                ts.append(t)
            cfgs = [(0.875, None), (None, 0.375), (0.875, 0.375), (0.375, 0.75)]
        items = list(enumerate(ts))
        for active, inactive in cfgs:
            sink = RawSink()
            sink.subscribe_to(rx.from_(items).pipe(rs.state.with_memory_store([
                rs.data.time_split(time_mapper=lambda x: x[1], active_timeout=active, inactive_timeout=inactive,
                                   pipeline=[rs.ops.map(lambda x: x[0]), rs.data.to_list()])])))
            acc.evals += 1
            acc.events += len(items) + 1
            acc.traces += 1
            exp = sessions(items, lambda x: x[1], None, active, inactive, None, True)
            exp = [[x[0] for x in w] for w in exp]
            got = [w for w in sink.items if w != []]
            if sink.error is not None or got != exp:
                out.append(viol(fam, 'windows-' + str(harness.diff_kind(exp, got)), {'timestamps': [str(x) for x in ts], 'active': str(active),
                                                                                    'inactive': str(inactive), 'expected': exp, 'observed': got,
                                                                                    'error': repr(sink.error)}))
                break
        acc.nontrivial.add(fast_hash(repr(case)))
        return out
    nk = case['keys']
    # every key: timestamps 0, 1, 2, 4 (inactive timeout 2 -> windows [0,1,2] and [4]); round robin over all keys
    items = [(k, t) for t in (0, 1, 2, 4) for k in range(nk)]
    sink = RawSink()
    sink.subscribe_to(rx.from_(items).pipe(rs.state.with_memory_store([
        rs.ops.group_by(lambda x: x[0], [rs.data.time_split(time_mapper=lambda x: x[1], inactive_timeout=2,
                                                            pipeline=[rs.ops.map(lambda x: x[1]), rs.data.to_list()])])])))
    acc.evals += 1
    acc.events += len(items) + 1
    acc.traces += 1
    from collections import Counter
    got = Counter(map(repr, sink.items))
    want = Counter({repr([0, 1, 2]): nk, repr([4]): nk})
    if sink.error is not None or got != want:
        out.append(viol('manykeys', 'windows-differ', {'keys': nk, 'observed_counts': dict(list(got.items())[:6]), 'error': repr(sink.error)}))
    acc.count('many_live_keys')
    return out


def run_case(case, acc):
    if case.get('fam') == 'sharedlist':
        # one list object used as the pipeline of two operators
        import rxsci as rs
        d = harness.shared_list_problem(lambda L: rs.data.time_split(time_mapper=lambda x: x, active_timeout=3, pipeline=L), lambda L: rs.data.time_split(time_mapper=lambda x: x, inactive_timeout=2, pipeline=L), [0, 1, 2, 5, 6, 9])
        acc.evals += 3
        acc.count('shared_pipeline_lists')
        return [viol('sharedlist', 'pipeline-list-shared-by-two-operators', d)] if d else []
    if case['fam'] in ('days', 'floats', 'manykeys'):
        return run_probe(case, acc)
    a, i, c, inc = CONFIGS[case['cfg']]
    fam = case['fam']
    out = []
    if fam == 'top':
        t = 0
        items = []
        for pos, (g, f) in enumerate(zip(case['gaps'], case['flags'])):
            t += g
            items.append(10000 * pos + 10 * t + f)     # ts = (x // 10) % 100, closing flag = x % 10
        name = 'time_split_dt' if case['dt'] else 'time_split'
        spec = [[name, a, i, c, inc, INNER] + ([] if case['dt'] else ['ts_int'])]
        exp = sessions(items, opspecs.F('ts_int'), opspecs.F('closing_mod10'), a, i, c, inc)
    else:
        t = {}
        pos = {}
        items = []
        for g, gap, f in zip(case['order'], case['gaps'], case['flags']):
            t[g] = t.get(g, 0) + gap
            items.append(1000 * g + 100000 * pos.get(g, 0) + 10 * t[g] + f)
            pos[g] = pos.get(g, 0) + 1
        opspecs.FUNCS.setdefault('grp', lambda x: (x // 1000) % 10)
        spec = [['group_by', 'grp', [['time_split', a, i, c, inc, INNER, 'ts_int']]]]
        if fam == 'nested':
            opspecs.FUNCS.setdefault('zero', lambda x: 0)
            spec = [['group_by', 'grp', [['group_by', 'zero', spec[0][2]]]]]
        exp = None
    twice = len(items) <= 3
    sink, ctx, store = harness.run_api(spec, items, track_states=True, twice=twice)
    acc.evals += 2 if twice else 1
    acc.events += (len(items) + 1) * (2 if twice else 1)
    acc.traces += 2 if twice else 1
    m = [w for w in harness.model_all(spec, items) if w != []]
    if exp is not None and m != exp:
        raise AssertionError('refmodel disagrees with the session model: %r %r' % (m, exp))
    exp = m
    sp = harness.status_problem(sink)
    if sp:
        out.append(viol(fam, sp, {'spec': spec, 'items': items, 'error': repr(sink.error)}))
    if twice:
        acc.count('second_subscriptions')
        d = harness.second_problem(sink)
        if d:
            out.append(viol(fam, 'second-subscription-differs', dict(d, spec=spec, items=items)))
    got = [w for w in sink.items if w != []]
    kind = harness.diff_kind(exp, got)
    if kind:
        out.append(viol(fam, 'windows-' + kind, {'config': {'active': a, 'inactive': i, 'closing': c, 'include': inc},
                                                 'items': items, 'expected': exp, 'observed': got}))
    if fam == 'top':
        lts, problems = lifetimes(ctx.log('h'))
        if problems:
            out.append(viol(fam, 'window-lifecycle-broken', {'problems': problems[:5], 'items': items}))
        elif [l[1] for l in lts if l[1]] != exp or any(not l[2] for l in lts):
            out.append(viol(fam, 'window-brackets', {'items': items, 'expected': exp, 'lifetimes': lts}))
        if any(g == 3 for g in case['gaps']) and a is not None:
            acc.count('gap_equals_active_timeout')
        if any(g == 2 for g in case['gaps']) and i is not None:
            acc.count('gap_equals_inactive_timeout')
        if 1 in case['flags']:
            acc.count('closing_item')
    elif case['order'] != sorted(case['order']):
        acc.count('interleaved_keys_nested' if fam == 'nested' else 'interleaved_keys')
    acc.states.update(ctx.states)
    acc.outcomes.add(fast_hash(repr((case['cfg'], got))))
    if len(exp) >= 2:
        acc.nontrivial.add(fast_hash(repr(case)))
    return out


def guards(acc, tier):
    msgs = []
    for name in ('gap_equals_active_timeout', 'gap_equals_inactive_timeout', 'closing_item', 'interleaved_keys', 'interleaved_keys_nested'):
        if acc.counters.get(name, 0) < 1:
            msgs.append('no execution with %s' % name)
    if len(acc.outcomes) < 100:
        msgs.append('fewer than 100 distinct outcomes')
    return msgs
