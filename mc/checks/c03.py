"""C03 - mux event protocol is well-formed at every operator boundary."""
import itertools

from .. import opspecs, spaces, harness, monitor
from ..drivers import run_raw_mux
from ..engine import fast_hash

ID = 'C03'
TITLE = 'Mux event protocol is well-formed at every operator boundary'
LEVEL = 'model_checking'
RULE = ('(a) assume-guarantee per operator: every mux operator of rxsci.operators / rxsci.data / rxsci.math / rxsci.error (49 '
        'instances, the higher-order ones with a spanning set of inner pipelines) is fed EVERY well-formed mux event sequence of '
        'the most general environment (2 keys x 2 values, and 3 keys incl. a sparse index, key-index reuse, empty keys) up to the '
        'depth bound; (b) every nesting to depth 2 (3 in thorough) of {group_by, roll x6, split, time_split x2, tee_map x3 joins x2 '
        'shapes} around 8 leaf pipelines x every input over {0,1,2} up to the length bound incl. the empty source. A protocol '
        'automaton (live-key set per boundary) runs on EVERY MuxObservable boundary, including those inside composite operators, '
        'through a patched rx.pipe. Non-trivial = execution with >= 2 boundaries and >= 2 key lifetimes; states = distinct '
        '(boundary count, store snapshot) pairs; transitions = events seen by all boundary automata.')
DEEP_PROBES = ('150 live groups through every higher-order operator; roll(260,130), roll(300,300), roll(257,256); the same pipeline object subscribed twice (after completion / after on_error); a well-formed prefix followed by one unhandled mux error')
ASSUMPTIONS = ['the environment itself is well-formed and carries no mux errors except for the error handlers',
               'the joining half of higher-order operators is checked with a spanning set of inner tail behaviours {streaming, '
               'silent, expanding, completion burst, mixed}, cross-checked by the nested enumeration (b)',
               'boundaries are observed where rx.pipe composes operators (named after the operator) and, independently of how operators are composed, on every MuxObservable the library constructs; the latter see what a subscriber sees, i.e. behind RxPY\'s auto-detach']
LEVEL_TEXT = ('Bounded-exhaustive model checking of an invariant (protocol automaton) on every internal boundary: if every operator '
              'maps every well-formed input history to well-formed output at all its boundaries, well-formedness of arbitrarily '
              'nested pipelines follows by induction over the pipeline structure; the nested enumeration cross-checks the residual '
              'assumption about inner pipelines.')
LEVEL_NOTE = 'Trusted: the 60-line automaton in mc/monitor.py and the rx.pipe patch (harness side, /repo untouched).'
TECHNIQUE = 'stateless bounded-exhaustive exploration with an invariant monitor (protocol automaton) on every mux boundary'

INNER_SPAN = {
    'stream': [['identity']],
    'silent': [['filter', 'false']],
    'expand': [['map', 'dup'], ['flat_map']],
    'burst': [['to_list']],
    'mixed': [['tee_map', 'merge', [['last']], [['filter', 'even']]]],
}

LEAF_OPS = [
    [['map', 'inc']], [['starmap_safe']], [['filter', 'even']], [['map', 'dup'], ['flat_map']], [['scan', 'add', '0']],
    [['scan', 'add', '0', True]], [['scan', 'append', 'emptylist', False, 't_wrap']], [['count']], [['count', True]], [['sum']],
    [['mean']], [['max']], [['min', True]], [['variance']], [['stddev', True]], [['fvariance']], [['fstddev', True]],
    [['first']], [['last']], [['take', 0]], [['take', 2]], [['distinct']], [['duc']], [['lag', 1]], [['lag', 2]],
    [['pad_start', 2]], [['pad_end', 2]], [['start_with', [7, 8]]], [['batch', 1]], [['batch', 2]], [['to_list']], [['to_array', 'q']],
    [['assert', 'true']], [['assert_1', 'anypair']], [['do_action', 'da']], [['progress', 2]], [['clip', 0, 1]], [['fill_none', 5]],
    [['identity']], [['err_ignore']], [['err_map', 'exc_to_int']],
    [['tee_map', 'zip', [['count']], [['filter', 'even']]]], [['tee_map', 'merge', [['last']], [['identity']]]],
    [['tee_map', 'combine_latest', [['take', 1]], [['count', True]], [['filter', 'even']]]],
]
opspecs.op('starmap_safe', lambda c: __import__('rxsci').ops.map(lambda i: (i, i)), lambda: opspecs.M.Map(lambda i: (i, i)))
opspecs.FUNCS.setdefault('exc_to_int', lambda e: -1)

HO = ['group_by', 'roll11', 'roll21', 'roll22', 'roll32', 'roll23', 'roll31', 'roll52', 'roll43', 'split', 'ts_inc', 'ts_exc',
      'split_f', 'group_by_f']          # _f: predicate / key values are None and 0 (falsy, distinct)
opspecs.FUNCS.setdefault('none_or_0', lambda x: None if x % 2 == 0 else 0)
TEES = [('tee_zip', 'zip'), ('tee_merge', 'merge'), ('tee_cl', 'combine_latest')]
LEAVES_B = [[['identity']], [['filter', 'even']], [['to_list']], [['last']], [['count', True]], [['take', 1]],
            [['map', 'dup'], ['flat_map']], [['batch', 2]]]


def wrap(parent, inner):
    if parent == 'group_by':
        return [['group_by', 'mod2', inner]]
    if parent.startswith('roll'):
        return [['roll', int(parent[4]), int(parent[5]), inner]]
    if parent == 'split':
        return [['split', 'even', inner]]
    if parent == 'split_f':
        return [['split', 'none_or_0', inner]]
    if parent == 'group_by_f':
        return [['group_by', 'none_or_0', inner]]
    if parent == 'ts_inc':
        return [['time_split', None, None, 'even', True, inner, 'ident']]
    if parent == 'ts_exc':
        return [['time_split', None, None, 'even', False, inner, 'ident']]
    if parent.startswith('tee_'):
        join = dict(TEES)[parent[:-1]] if parent[-1] in 'ab' else dict(TEES)[parent]
        if parent.endswith('b'):
            return [['tee_map', join, [['count', True]], inner]]
        return [['tee_map', join, inner, [['last']]]]
    raise ValueError(parent)


PARENTS_B = HO + [t[0] + s for t in TEES for s in ('a', 'b')]


def ag_ops():
    ops = [('leaf', p) for p in LEAF_OPS]
    for h in HO:
        for name, inner in INNER_SPAN.items():
            ops.append((h + ':' + name, wrap(h, inner)))
    return ops


def bounds(tier):
    return {'ag_operators': len(ag_ops()), 'ag_depth_2keys': 7 if tier == 'quick' else 9, 'ag_depth_3keys': 6 if tier == 'quick' else 8,
            'nesting_depth': 2 if tier == 'quick' else 3, 'nested_input_len': 4 if tier == 'quick' else 5}


def units(tier):
    out = []
    ops = ag_ops()
    d2 = 7 if tier == 'quick' else 9
    d3 = 6 if tier == 'quick' else 8
    n = 4 if tier == 'quick' else 32
    for oi in range(len(ops)):
        for sh in range(n):
            out.append({'fam': 'ag', 'op': oi, 'keys': [0, 1], 'values': [1, 2], 'depth': d2, 'shard': [sh, n]})
        out.append({'fam': 'ag', 'op': oi, 'keys': [0, 1, 3], 'values': [1], 'depth': d3, 'shard': [0, 1]})
    for oi in range(len(ops)):
        out.append({'fam': 'abort', 'op': oi, 'depth': 4 if tier == 'quick' else 6})
    out.append({'fam': 'deep'})
    nest = [[p] for p in PARENTS_B] + [[p, q] for p in PARENTS_B for q in PARENTS_B]
    if tier != 'quick':
        nest += [[p, q, r] for p in HO[::2] + ['tee_zipa', 'tee_clb'] for q in HO[1::2] + ['tee_mergea'] for r in PARENTS_B[::3]]
    for part in spaces.shard(nest, 64 if tier == 'quick' else 256):
        out.append({'fam': 'nested', 'nest': part, 'L': 4 if tier == 'quick' else 5})
    return out


def deep_cases():
    """Deep probes beyond the small alphabets: 150 simultaneously live groups through every higher-order operator, windows
    beyond the interpreter's small-int range, and a second subscription of the same pipeline object (after a normal run and
    after a run that ended with on_error)."""
    out = []
    many = [x % 150 for x in range(450)]
    for h in HO:
        for name in ('burst', 'stream'):
            out.append({'fam': 'nested', 'spec': [['group_by', 'mod150', wrap(h, INNER_SPAN[name])]], 'seq': many})
    for (w, s) in ((260, 130), (300, 300), (257, 256)):
        out.append({'fam': 'nested', 'spec': [['roll', w, s, [['count', True]]]], 'seq': list(range(2 * w + 5))})
    for h in HO + ['tee_zipa', 'tee_clb']:
        for fail_at in (None, 0, 3):
            out.append({'fam': 'resub', 'spec': wrap(h, [['count', True]]), 'seq': [0, 1, 2, 3, 4, 5, 6], 'fail_at': fail_at})
            out.append({'fam': 'resub', 'spec': [['group_by', 'mod2', wrap(h, [['to_list']])]], 'seq': [0, 1, 2, 3, 4, 5, 6], 'fail_at': fail_at})
    return out


def cases(unit):
    if unit['fam'] == 'deep':
        for c in deep_cases():
            yield c
        return
    if unit['fam'] == 'abort':
        # a well-formed prefix, then ONE mux error for a live key, after which the stream is abandoned (in a real pipeline the
        # unhandled error becomes on_error at the demultiplexer and nothing follows)
        for seq in spaces.wf_sequences([0, 1], [1, 2], unit['depth'], closed=False):
            live = []
            for e in seq:
                if e[0] == 'c':
                    live.append(e[1])
                elif e[0] == 'd':
                    live.remove(e[1])
            for k in live:
                yield {'fam': 'abort', 'op': unit['op'], 'events': [list(e) for e in seq] + [['e', k, 'boom']]}
        return
    if unit['fam'] == 'ag':
        sh, n = unit['shard']
        for i, seq in enumerate(spaces.wf_sequences(unit['keys'], unit['values'], unit['depth'])):
            if i % n == sh:
                yield {'fam': 'ag', 'op': unit['op'], 'events': [list(e) for e in seq]}
    else:
        for nest in unit['nest']:
            for leaf in LEAVES_B:
                spec = leaf
                for p in reversed(nest):
                    spec = wrap(p, spec)
                for seq in spaces.sequences([0, 1, 2], unit['L']):
                    yield {'fam': 'nested', 'spec': spec, 'seq': seq}


def viol(fam, name, problems, detail):
    rule, bname, b, key = problems[0]
    detail = dict(detail, problems=problems[:5])
    return {'signature': 'C03|%s|%s|%s' % (fam, name, rule), 'detail': detail}


def run_case(case, acc):
    monitor.install()
    try:
        return _run_case(case, acc)
    finally:
        monitor.uninstall()


def _run_case(case, acc):
    mon = monitor.MON
    mon.reset()
    out = []
    if case['fam'] == 'abort':
        from ..drivers import RawStepper
        name, spec = ag_ops()[case['op']]
        events = [tuple(e) if e[0] != 'e' else ('e', e[1], ValueError(e[2])) for e in case['events']]
        st = RawStepper(opspecs.build(spec))
        for e in events:
            st.push(e)
        acc.evals += 1
        acc.traces += 1
        acc.events += mon.events
        label = (name if name != 'leaf' else '+'.join(harness.opnames(spec))) + ':unhandled-error'
        if mon.problems:
            out.append(viol('ag', label, mon.problems, {'spec': spec, 'events': case['events']}))
        # the higher-order operators turn the unhandled error into on_error at their demultiplexer: expected, not checked
        acc.count('unhandled_error_prefixes')
        acc.outcomes.add(fast_hash(repr((label, st.sink.items))))
        return out
    if case['fam'] == 'ag':
        name, spec = ag_ops()[case['op']]
        events = [tuple(e) for e in case['events']]
        if spec[0][0] in ('err_ignore', 'err_map'):
            # the error handlers are the operators that consume mux errors: odd values arrive as errors
            events = [('e', e[1], ValueError(e[2])) if (e[0] == 'n' and e[2] == 1) else e for e in events]
        ctx = opspecs.Ctx(True)
        sink = run_raw_mux(opspecs.build(spec + [['tap', 't']], ctx), events)
        acc.evals += 1
        acc.traces += 1
        acc.events += mon.events
        label = name if name != 'leaf' else '+'.join(harness.opnames(spec))
        if mon.problems:
            out.append(viol('ag', label, mon.problems, {'spec': spec, 'events': events}))
        sp = harness.status_problem(sink)
        if sp:
            out.append({'signature': 'C03|ag|%s|%s' % (label, sp), 'detail': {'spec': spec, 'events': events, 'error': repr(sink.error)}})
        harness.raw_stats(events, acc)
        acc.states.update(ctx.states)
        acc.outcomes.add(fast_hash(repr((label, sink.items))))
        if mon.boundaries >= 2 and sum(1 for e in events if e[0] == 'c') >= 2:
            acc.nontrivial.add(fast_hash(repr(case)))
        acc.count('boundaries', mon.boundaries)
        return out
    if case['fam'] == 'resub':
        return run_resub(case, acc)
    spec, seq = case['spec'], case['seq']
    sink, ctx, store = harness.run_api(spec, seq)
    acc.evals += 1
    acc.traces += 1
    acc.events += mon.events
    acc.programs.add(fast_hash(repr(spec)))
    label = '>'.join(n for n in harness.opnames(spec) if n in ('group_by', 'roll', 'split', 'time_split', 'tee_map'))
    if mon.problems:
        out.append(viol('nested', label, mon.problems, {'spec': spec, 'seq': seq}))
    sp = harness.status_problem(sink)
    if sp:
        out.append({'signature': 'C03|nested|%s|%s' % (label, sp), 'detail': {'spec': spec, 'seq': seq, 'error': repr(sink.error)}})
    acc.outcomes.add(fast_hash(repr((spec, sink.items))))
    acc.states.add(fast_hash((mon.boundaries, mon.events, repr(sink.items))))
    if len(seq) >= 2:
        acc.nontrivial.add(fast_hash(repr(case)))
    if not seq:
        acc.count('empty_source')
    acc.count('boundaries', mon.boundaries)
    return out


def run_resub(case, acc):
    """The same pipeline OBJECT subscribed twice (what rx retry / repeat do): the first run completes normally or ends with an
    on_error of the source after `fail_at` items; the protocol must hold at every boundary of the second run as well and the
    second run must produce what a fresh pipeline produces."""
    import rx
    import rxsci as rs
    from ..drivers import Sink, new_store
    mon = monitor.MON
    spec, seq, fail_at = case['spec'], case['seq'], case['fail_at']
    store = new_store()
    pipeline = rs.state.with_store(store, opspecs.build(spec))

    def source(observer, scheduler=None):
        for i, x in enumerate(seq):
            if source.first and fail_at is not None and i == fail_at:
                source.first = False
                observer.on_error(RuntimeError('source failed'))
                return
            observer.on_next(x)
        source.first = False
        observer.on_completed()
    source.first = True
    obs = rx.create(source).pipe(pipeline)
    first, second = Sink(), Sink()
    first.subscribe_to(obs)
    n1 = len(mon.problems)
    second.subscribe_to(obs)
    acc.evals += 2
    acc.traces += 2
    acc.events += mon.events
    out = []
    label = '>'.join(n for n in harness.opnames(spec) if n in ('group_by', 'roll', 'split', 'time_split', 'tee_map')) + ':resubscribed'
    if mon.problems:
        out.append(viol('nested', label, mon.problems, {'spec': spec, 'seq': seq, 'first_run_fails_after': fail_at,
                                                        'problems_in_first_run': n1}))
    # only the protocol is checked on the second run: whether its OUTPUT equals a fresh pipeline's is no listed property
    # (a published tee_map source, for one, cannot be restarted after an error by RxPY design)
    acc.count('resubscriptions')
    acc.outcomes.add(fast_hash(repr((spec, fail_at, second.items))))
    return out


def guards(acc, tier):
    msgs = []
    for name in ('key_index_reused', 'two_live_keys', 'empty_source'):
        if acc.counters.get(name, 0) < 1:
            msgs.append('no execution with %s' % name)
    if acc.counters.get('boundaries', 0) < acc.evals:
        msgs.append('fewer than one monitored boundary per execution on average')
    return msgs
