"""C08 - tee_map equals running each branch independently and joining the results."""
import itertools

from .. import opspecs, spaces, harness
from ..drivers import RawStepper, ApiStepper
from ..engine import fast_hash

ID = 'C08'
TITLE = 'tee_map equals running each branch independently and joining the results'
LEVEL = 'model_checking'
RULE = ('tee_map with 2-4 branches drawn from {identity, filter, duplicate (map+flat_map), count(reduce), last, take(1), '
        'scan, roll(2,1,[sum(reduce)])} x join in {merge, zip, combine_latest} x every well-formed raw-mux event sequence '
        '(2 keys x 2 values, key-index reuse) up to the depth bound: every branch is run ALONE on the same history with a '
        'step-wise driver, a 25-line join model folds the per-step branch outputs, and the real tee_map must emit exactly '
        'the joined sequence at every step. Same on plain observables for all item sequences. tee_map under '
        'group_by/roll/split and nested in tee_map is compared with the reference interpreter. Non-trivial = branches that '
        'emit different numbers of items on a history with >= 2 items.')
DEEP_PROBES = ('a far key index (130); one branch producing 255..512 values while another stays silent; one operator object applied to two sources; 200 (16 500 thorough) live keys')
ASSUMPTIONS = ['branch pipelines are deterministic, so a branch run alone produces what it produces inside tee_map',
               'zip/combine_latest over overlapping-roll branches only in the differential family (branch order taken from the real branch run)']
LEVEL_TEXT = ('Bounded-exhaustive model checking of the real tee_map (mux and plain paths) with a differential oracle: the '
              'branches themselves run separately on every enumerated history and a small join model combines them; no '
              'expected value is hand-written. Join-state defects need a specific history (a key index created a second time '
              'while one branch stayed silent), which the complete enumeration of well-formed histories contains.')
LEVEL_NOTE = 'Trusted: the join model (merge / zip / combine_latest) in this file; determinism of branch pipelines.'
TECHNIQUE = 'stateless bounded-exhaustive differential exploration: real tee_map vs real branches run alone + join model'

BRANCHES = {
    'id': [['identity']],
    'empty': [],                                # a branch written as an empty list: the identity pipeline
    'flt': [['filter', 'even']],
    'dup': [['map', 'dup'], ['flat_map']],
    'cnt': [['count', True]],
    'last': [['last']],
    'take1': [['take', 1]],
    'scan': [['scan', 'add', '0']],
    'roll': [['roll', 2, 1, [['sum', True]]]],
    'odd': [['filter', 'odd']],
    'none': [['map', 'none_if_odd']],          # emits None as a VALUE (zip/combine_latest must not take it for 'nothing yet')
}
QUICK_SET = ['id', 'flt', 'cnt', 'last', 'take1', 'none', 'empty']
MULTI = [('id', 'flt', 'cnt'), ('flt', 'last', 'scan'), ('take1', 'cnt', 'dup'), ('flt', 'flt', 'id'), ('last', 'cnt', 'take1'),
         ('roll', 'flt', 'last'), ('id', 'flt', 'cnt', 'last'), ('flt', 'take1', 'scan', 'cnt'), ('dup', 'flt', 'last', 'id'),
         ('cnt', 'cnt', 'cnt'), ('flt', 'id', 'flt', 'id'), ('scan', 'roll', 'flt'), ('none', 'flt', 'id'), ('cnt', 'none', 'none'),
         ('flt', 'odd', 'flt'), ('odd', 'flt', 'odd'), ('id', 'odd', 'flt', 'cnt'), ('flt', 'odd', 'odd', 'flt')]
JOINS = ['merge', 'zip', 'combine_latest']


def bounds(tier):
    return {'raw_depth': 7 if tier == 'quick' else 8, 'plain_len': 5 if tier == 'quick' else 6,
            'branch_specs': len(QUICK_SET) if tier == 'quick' else len(BRANCHES), 'multi_branch_programs': len(MULTI)}


def progs(tier):
    names = QUICK_SET if tier == 'quick' else list(BRANCHES)
    out = [list(p) for p in itertools.product(names, repeat=2)]
    out += [list(m) for m in MULTI]
    if tier != 'quick':
        out += [list(p) for p in itertools.product(['id', 'flt', 'cnt', 'last', 'take1'], repeat=3)]
    seen, res = set(), []
    for p in out:
        if tuple(p) not in seen:
            seen.add(tuple(p))
            res.append(p)
    return res


NEST_PARENTS = ['group_by', 'roll22', 'roll12', 'roll21', 'split', 'tee']


def units(tier):
    out = []
    out.append({'fam': 'sharedlist'})
    d = 7 if tier == 'quick' else 8
    n = 32 if tier == 'quick' else 128
    for sh in range(n):
        out.append({'fam': 'raw', 'tier': tier, 'depth': d, 'shard': [sh, n]})
    out.append({'fam': 'raw', 'tier': tier, 'depth': 5, 'shard': [0, 1], 'keys': [2, 130]})
    L = 5 if tier == 'quick' else 6
    for sh in range(8):
        out.append({'fam': 'plain', 'tier': tier, 'L': L, 'shard': [sh, 8]})
    for j in JOINS + ['describe']:
        out.append({'fam': 'probe', 'tier': tier, 'which': j})
    for parent in NEST_PARENTS:
        for join in JOINS:
            out.append({'fam': 'nested', 'parent': parent, 'join': join, 'L': 4 if tier == 'quick' else 5})
    return out


def cases(unit):
    if unit.get('fam') == 'sharedlist':
        yield {'fam': 'sharedlist'}
        return
    fam = unit['fam']
    if fam == 'raw':
        sh, n = unit['shard']
        for i, seq in enumerate(spaces.wf_sequences(unit.get('keys', [0, 1]), [1, 2], unit['depth'])):
            if i % n == sh:
                yield {'fam': 'raw', 'tier': unit['tier'], 'events': [list(e) for e in seq]}
    elif fam == 'probe' and unit['which'] == 'describe':
        for seq in spaces.sequences([1, 2, 5], 4, 1):
            yield {'fam': 'describe', 'join': 'zip', 'seq': seq}
    elif fam == 'probe':
        for join in [unit['which']]:
            for n in (255, 256, 257, 512):
                yield {'fam': 'longkey', 'join': join, 'n': n}
            yield {'fam': 'reuse_op', 'join': join}
            yield {'fam': 'manykeys', 'join': join, 'keys': 200}
            yield {'fam': 'manykeys', 'join': join, 'keys': 16500}
    elif fam == 'plain':
        sh, n = unit['shard']
        for i, seq in enumerate(spaces.sequences([0, 1, 2], unit['L'])):
            if i % n == sh:
                yield {'fam': 'plain', 'tier': unit['tier'], 'seq': seq}
    else:
        pairs = [('id', 'flt'), ('flt', 'cnt'), ('last', 'take1'), ('cnt', 'flt'), ('flt', 'last'), ('dup', 'flt'), ('scan', 'cnt'), ('none', 'flt')]
        for (a, b) in pairs:
            for seq in spaces.sequences([0, 1, 2], unit['L']):
                yield {'fam': 'nested', 'parent': unit['parent'], 'join': unit['join'], 'branches': [a, b], 'seq': seq}


def viol(fam, join, sym, detail):
    return {'signature': 'C08|%s|%s|%s' % (fam, join, sym), 'detail': detail}


class Join(object):
    def __init__(self, join, n):
        self.join, self.n = join, n
        self.val = [None] * n
        self.has = [False] * n

    def push(self, b, y):
        if self.join == 'merge':
            return [y]
        if self.join == 'zip':
            self.val[b], self.has[b] = y, True
            if all(self.has):
                out = [tuple(self.val)]
                self.val, self.has = [None] * self.n, [False] * self.n
                return out
            return []
        self.val[b] = y
        return [tuple(self.val)]


def run_probe(case, acc):
    import rx
    import rxsci as rs
    from ..bytelevel import RawSink
    from ..drivers import Sink
    fam, join = case['fam'], case['join']
    out = []
    if fam == 'describe':
        # rs.math.dist.describe() is a tee_map(zip) of the dist.* metrics: it must equal the metrics computed one by one
        seq = case['seq']
        D = rs.math.dist
        def alone(metric, mux):
            s_ = Sink()
            ops = [D.update(bin_count=4), metric]
            s_.subscribe_to(rx.from_(seq).pipe(rs.state.with_memory_store(ops)) if mux else rx.from_(seq).pipe(*ops))
            return s_.items
        for mux in (True, False):
            s_ = Sink()
            ops = [D.update(bin_count=4), D.describe(quantiles=[0.5])]
            s_.subscribe_to(rx.from_(seq).pipe(rs.state.with_memory_store(ops)) if mux else rx.from_(seq).pipe(*ops))
            cols = [alone(m, mux) for m in (D.min(), D.max(), D.mean(), D.stddev(), D.quantile(0.5))]
            exp = [tuple(c[i] for c in cols) for i in range(len(seq))]
            acc.evals += 6
            acc.traces += 1
            if s_.error is None and s_.items and len(tuple(s_.items[0])) != 5:
                acc.count('describe_has_other_fields_than_the_five_compared')     # a changed field list is not tee_map's concern
                continue
            if s_.error is not None or [tuple(x) for x in s_.items] != exp:
                out.append(viol('dist.describe', 'zip', 'differs-from-metrics-computed-separately',
                                {'seq': seq, 'mux': mux, 'expected': exp, 'observed': s_.items, 'error': repr(s_.error)}))
                break
        return out
    if fam == 'longkey':
        # one branch produces n values for a key while the other produces one at completion (n around 256)
        n = case['n']
        for spec in ([['tee_map', join, [['identity']], [['count', True]]]], [['tee_map', join, [['count', True]], [['identity']]]],
                     [['group_by', 'mod2', [['tee_map', join, [['identity']], [['last']], [['filter', 'even']]]]]]):
            items = list(range(n))
            sink, ctx, store = harness.run_api(spec, items)
            exp = harness.model_all(spec, items)
            acc.evals += 1
            acc.events += n
            acc.traces += 1
            if sink.error is not None or sink.items != exp:
                out.append(viol('long-key', join, 'join-' + str(harness.diff_kind(exp, sink.items)), {'spec': spec, 'n': n, 'expected_tail': exp[-3:],
                                                                                                   'observed_tail': sink.items[-3:], 'error': repr(sink.error)}))
                break
        return out
    if fam == 'reuse_op':
        # ONE tee_map operator object applied to two different plain sources, one after the other
        op = rs.ops.tee_map(rs.ops.filter(lambda i: i > 5), rs.ops.count(), join=join)
        fresh = lambda: rs.ops.tee_map(rs.ops.filter(lambda i: i > 5), rs.ops.count(), join=join)
        for a, b in (([1, 2, 3], [7, 8]), ([7], [1, 9]), ([], [6, 1, 7])):
            s1, s2, ref = Sink(), Sink(), Sink()
            s1.subscribe_to(rx.from_(a).pipe(op))
            s2.subscribe_to(rx.from_(b).pipe(op))
            ref.subscribe_to(rx.from_(b).pipe(fresh()))
            acc.evals += 3
            acc.traces += 1
            if s2.items != ref.items or (s2.error is None) != (ref.error is None):
                out.append(viol('plain-operator-object-applied-twice', join, 'second-use-differs-from-a-fresh-operator',
                                {'first_source': a, 'second_source': b, 'fresh': ref.items, 'second': s2.items}))
                break
        return out
    nk = case['keys']
    # many live keys; branches with different rates (filter on the second item only)
    items = [(k, p) for p in range(3) for k in range(nk)]
    sink = RawSink()
    sink.subscribe_to(rx.from_(items).pipe(rs.state.with_memory_store([rs.ops.group_by(lambda t: t[0], [
        rs.ops.tee_map(rs.ops.map(lambda t: t[1]), rx.pipe(rs.ops.filter(lambda t: t[1] == 1), rs.ops.map(lambda t: t[0])), rs.ops.count(reduce=True), join=join)])])))
    acc.evals += 1
    acc.events += len(items)
    acc.traces += 1
    from collections import Counter
    got = Counter(map(repr, sink.items))
    # per key k: model
    def per_key(k):
        m = opspecs.M.TeeMap(join, [lambda: opspecs.M.Map(lambda t: t[1]), lambda: opspecs.M.Pipe([opspecs.M.Filter(lambda t: t[1] == 1), opspecs.M.Map(lambda t: t[0])]),
                                    lambda: opspecs.M.Scan(lambda a, x: a + 1, lambda: 0, True, None)])
        o = []
        for p in range(3):
            o.extend(m.item((k, p)))
        o.extend(m.end())
        return o
    want = Counter()
    for k in range(nk):
        for y in per_key(k):
            want[repr(y)] += 1
    if sink.error is not None or got != want:
        diff = list((want - got).items())[:3], list((got - want).items())[:3]
        out.append(viol('many-keys', join, 'join-differs', {'keys': nk, 'missing/extra': diff, 'error': repr(sink.error)}))
    acc.count('many_live_keys')
    return out


def run_case(case, acc):
    if case.get('fam') == 'sharedlist':
        # one list object used as the pipeline of two operators
        import rxsci as rs
        d = harness.shared_list_problem(lambda L: rs.ops.tee_map(L, [rs.ops.count()], join='merge'), lambda L: rs.ops.tee_map([rs.ops.map(lambda x: -x)], L, join='zip'), [0, 1, 2])
        acc.evals += 3
        acc.count('shared_pipeline_lists')
        return [viol('sharedlist', 'zip', 'branch-list-shared-by-two-operators', d)] if d else []
    fam = case['fam']
    if fam in ('longkey', 'reuse_op', 'manykeys', 'describe'):
        return run_probe(case, acc)
    if fam == 'nested':
        return run_nested(case, acc)
    out = []
    plist = progs(case['tier'])
    if fam == 'raw':
        events = [tuple(e) for e in case['events']]
        alone = {}
        needed = set(b for p in plist for b in p)
        for b in needed:
            if b == 'roll' and False:
                continue
            st = RawStepper(opspecs.build(BRANCHES[b]))
            steps = [st.push(e) for e in events]
            steps.append(st.complete())
            alone[b] = (steps, harness.status_problem(st.sink))
            acc.evals += 1
            acc.events += len(events) + 1
        harness.raw_stats(events, acc)
        for p in plist:
            for join in JOINS:
                acc.programs.add(fast_hash((tuple(p), join, 'mux')))
                spec = [['tee_map', join] + [BRANCHES[b] for b in p], ['tap', 't']]
                ctx = opspecs.Ctx(True)
                st = RawStepper(opspecs.build(spec, ctx))
                got = [st.push(e) for e in events]
                got.append(st.complete())
                acc.states.update(ctx.states)
                acc.evals += 1
                acc.events += len(events) + 1
                acc.traces += 1
                exp = []
                js = {}
                for t, ev in enumerate(events):
                    k = (ev[1],)
                    step = []
                    if ev[0] == 'c':
                        js[k] = Join(join, len(p))
                        step.append(('c', k))
                    else:
                        for bi, b in enumerate(p):
                            for o in alone[b][0][t]:
                                if o[0] == 'n':
                                    for y in js[o[1]].push(bi, o[2]):
                                        step.append(('n', o[1], y))
                        if ev[0] == 'd':
                            step.append(('d', k))
                            del js[k]
                    exp.append(step)
                exp.append([])
                sp = harness.status_problem(st.sink)
                if sp and not any(alone[b][1] for b in p):
                    out.append(viol('mux', join, sp, {'branches': p, 'events': events, 'error': repr(st.sink.error)}))
                if got != exp:
                    bad = next(i for i in range(len(exp)) if got[i] != exp[i])
                    flat_e = [x for s in exp for x in s]
                    flat_g = [x for s in got for x in s]
                    kind = harness.diff_kind(flat_e, flat_g) or 'timing'
                    lives = sum(1 for e in events[:bad + 1] if e[0] == 'c' and e[1] == events[min(bad, len(events) - 1)][1])
                    sym = 'join-%s%s' % (kind, '-after-key-reuse' if lives > 1 else '')
                    out.append(viol('mux', join, sym, {'branches': p, 'join': join, 'events': events, 'first_differing_step': bad,
                                                       'expected_per_step': exp, 'observed_per_step': got}))
                acc.outcomes.add(fast_hash(repr((p, join, got))))
                lens = set(sum(1 for s in alone[b][0] for o in s if o[0] == 'n') for b in p)
                if len(lens) > 1 and sum(1 for e in events if e[0] == 'n') >= 2:
                    acc.nontrivial.add(fast_hash(repr((p, join, case['events']))))
                    acc.count('unequal_rate_branches')
        return out

    # plain observables
    seq = case['seq']
    alone = {}
    plist = [p for p in plist if 'roll' not in p]
    for b in set(b for p in plist for b in p):
        st = ApiStepper(opspecs.build(BRANCHES[b]), mux=False)
        steps = [st.push(x) for x in seq]
        steps.append(st.complete())
        alone[b] = steps
        if st.sink.error is not None:
            alone[b] = None      # first/last on an empty plain observable raise by RxPY design: outside the property
        acc.evals += 1
        acc.events += len(seq) + 1
    for p in plist:
        if any(alone[b] is None for b in p):
            acc.skipped += 1
            continue
        for join in JOINS:
            acc.programs.add(fast_hash((tuple(p), join, 'plain')))
            spec = [['tee_map', join] + [BRANCHES[b] for b in p]]
            st = ApiStepper(opspecs.build(spec), mux=False)
            got = [st.push(x) for x in seq]
            got.append(st.complete())
            acc.evals += 1
            acc.events += len(seq) + 1
            acc.traces += 1
            j = Join(join, len(p))
            exp = []
            for t in range(len(seq) + 1):
                step = []
                for bi, b in enumerate(p):
                    for y in alone[b][t]:
                        step.extend(j.push(bi, y))
                exp.append(step)
            sp = harness.status_problem(st.sink)
            if sp:
                out.append(viol('plain', join, sp, {'branches': p, 'seq': seq, 'error': repr(st.sink.error)}))
            if got != exp:
                flat_e = [x for s in exp for x in s]
                flat_g = [x for s in got for x in s]
                kind = harness.diff_kind(flat_e, flat_g) or 'timing'
                out.append(viol('plain', join, 'join-' + kind, {'branches': p, 'join': join, 'seq': seq,
                                                                'expected_per_step': exp, 'observed_per_step': got}))
            acc.outcomes.add(fast_hash(repr((p, join, got, 'plain'))))
    return out


def run_nested(case, acc):
    a, b = case['branches']
    join, seq, parent = case['join'], case['seq'], case['parent']
    tee = ['tee_map', join, BRANCHES[a], BRANCHES[b]]
    if parent == 'group_by':
        spec = [['group_by', 'mod2', [tee]]]
    elif parent.startswith('roll'):
        spec = [['roll', int(parent[4]), int(parent[5]), [tee]]]
    elif parent == 'split':
        spec = [['split', 'even', [tee]]]
    else:
        spec = [['tee_map', 'merge' if join == 'zip' else 'zip', [tee], [['count']]]]
    steps, end, sink = harness.run_steps(spec, seq, mux=True)
    msteps, mend = harness.model_steps(spec, seq)
    acc.evals += 1
    acc.events += len(seq) + 1
    acc.traces += 1
    acc.programs.add(fast_hash(repr(spec)))
    out = []
    sp = harness.status_problem(sink)
    if sp:
        out.append(viol('nested-' + parent, join, sp, {'spec': spec, 'seq': seq, 'error': repr(sink.error)}))
    multiset = parent == 'roll21'
    got, exp = steps + [end], msteps + [mend]
    same = all(harness.same_multiset(x, y) if multiset else x == y for x, y in zip(exp, got))
    if not same:
        flat_e = [x for s in exp for x in s]
        flat_g = [x for s in got for x in s]
        kind = harness.diff_kind(flat_e, flat_g) or 'timing'
        out.append(viol('nested-' + parent, join, 'join-' + kind, {'spec': spec, 'seq': seq, 'expected_per_step': exp,
                                                                   'observed_per_step': got}))
    acc.outcomes.add(fast_hash(repr((spec, got))))
    if len(seq) >= 2:
        acc.nontrivial.add(fast_hash(repr(case)))
    if parent == 'tee' and not (not seq and 'last' in (a, b)):
        # the same nesting on PLAIN observables, inner tee_map as first and as last branch, with three kinds of source:
        # a Subject, a cold rx.from_ (trampolined) and a source that emits synchronously while it is being subscribed
        import rx
        from ..drivers import Sink
        outer = 'merge' if join == 'zip' else 'zip'
        for spec_p in ([['tee_map', outer, [tee], [['count']]]], [['tee_map', outer, [['count']], [tee]]]):
            exp_all = harness.model_all(spec_p, seq)
            for driver in ('subject', 'cold', 'sync'):
                if driver == 'subject':
                    st_, en_, sk = harness.run_steps(spec_p, seq, mux=False)
                elif driver == 'cold':
                    st_, en_, sk = harness.run_steps_cold(spec_p, seq, mux=False)
                else:
                    def emit_all(o, sch, seq=seq):
                        for x in seq:
                            o.on_next(x)
                        o.on_completed()
                    sk = Sink()
                    sk.subscribe_to(rx.create(emit_all).pipe(*opspecs.build(spec_p)))
                acc.evals += 1
                acc.events += len(seq) + 1
                acc.traces += 1
                acc.count('plain_nested_runs')
                if sk.error is not None or sk.completed != 1 or sk.items != exp_all:
                    out.append(viol('nested-plain-%s-source' % driver, join, 'join-' + str(harness.diff_kind(exp_all, sk.items) or 'not-completed'),
                                    {'spec': spec_p, 'seq': seq, 'expected': exp_all, 'observed': sk.items, 'error': repr(sk.error)}))
                    return out
    return out


def guards(acc, tier):
    msgs = []
    for name in ('key_index_reused', 'two_live_keys', 'unequal_rate_branches'):
        if acc.counters.get(name, 0) < 1:
            msgs.append('no execution with %s' % name)
    if len(acc.outcomes) < 500:
        msgs.append('fewer than 500 distinct outcomes')
    return msgs
