"""C10 - per-key sequence operators match their list semantics."""
from .. import opspecs, spaces, harness
from ..drivers import run_raw_mux
from ..engine import fast_hash

ID = 'C10'
TITLE = 'Per-key sequence operators match their list semantics'
LEVEL = 'model_checking'
ENGINE = 'hx'
RULE = ('every sequence over the item alphabet (None included) up to the length bound x every operator instance '
        '(first, last, take, distinct, distinct_until_changed, lag, pad_start, pad_end, start_with, batch, sort with '
        'their parameter grids) x every supported mode (with_memory_store, second key next to a busy key on a raw mux '
        'stream, plain observable); the real operator output is compared with a one-line list definition. '
        'Non-trivial = sequence of length >= 2 whose expected output differs from the input or is shorter/longer; '
        'states = distinct store snapshots taken at every event of the real run.')
DEEP_PROBES = ('every operator, plain and multiplexed, on every input of up to 3 items subscribed twice on the same observable; parameters 257 / 300 with sequences of 257..601 items; 300-item sequences for every operator; a 70 000 item sort; tuple items with equal hashes; a key re-created around an empty lifetime')
ASSUMPTIONS = [
    'items are drawn from a 3-4 value alphabet including None; lengths up to the bound',
    'padding semantics on an empty key and first/last on an empty plain observable are not defined by the property and skipped',
]
LEVEL_TEXT = ('Bounded-exhaustive model checking: all item sequences up to the bound over an alphabet with None and '
              'repeated values, all parameter values named by the property (n = 0, 1, larger than the sequence; padding '
              'None/explicit), in multiplexed and plain mode, each compared with the list definition. Off-by-one, '
              'sentinel-collision and divisibility defects only show for particular (sequence, parameter) pairs, '
              'which the complete small-scope enumeration visits by construction.')
LEVEL_NOTE = 'Trusted: the one-line list definitions in this file. Not covered: longer sequences, other value types.'
TECHNIQUE = 'stateless bounded-exhaustive exploration of real operators against list-semantics definitions'

opspecs.FUNCS.setdefault('k_none_mod2', lambda x: None if x is None else x % 2)

OPS = [
    ['first'], ['last'],
    ['take', 0], ['take', 1], ['take', 2], ['take', 3], ['take', 9],
    ['distinct'], ['distinct', 'k_none_mod2'],
    ['duc'], ['duc', 'k_none_mod2'],
    ['lag', 0], ['lag', 1], ['lag', 2], ['lag', 3], ['lag', 9],
    ['pad_start', 0], ['pad_start', 1], ['pad_start', 2], ['pad_start', 2, 9], ['pad_start', 1, 9],
    ['pad_end', 0], ['pad_end', 1], ['pad_end', 2], ['pad_end', 2, 9], ['pad_end', 1, 9],
    ['start_with', []], ['start_with', [7]], ['start_with', [7, 8]], ['start_with_as', 'tuple'], ['start_with_as', 'range'], ['start_with_as', 'str'],
    ['batch', 1], ['batch', 2], ['batch', 3], ['batch', 4], ['batch', 9],
]
PLAIN_OK = {'first', 'last', 'take', 'duc', 'batch'}
SORTS = [['sort'], ['sort', None, True], ['sort', 'first_of'], ['sort', 'first_of', True]]


def bounds(tier):
    return {'alphabet': [None, 0, 1] if tier == 'quick' else [None, 0, 1, 2],
            'max_len': 7 if tier == 'quick' else 8, 'operators': len(OPS) + len(SORTS)}


def listdef(o, x):
    name = o[0]
    if name == 'first':
        return x[:1]
    if name == 'last':
        return x[-1:]
    if name == 'take':
        return x[:o[1]]
    if name in ('distinct', 'duc'):
        kf = opspecs.F(o[1]) if len(o) > 1 and o[1] else (lambda v: v)
        out = []
        if name == 'distinct':
            seen = []
            for v in x:
                if not any(kf(v) == s for s in seen):
                    seen.append(kf(v))
                    out.append(v)
        else:
            for i, v in enumerate(x):
                if i == 0 or kf(v) != kf(x[i - 1]):
                    out.append(v)
        return out
    if name == 'lag':
        return [(x[max(0, i - o[1])], x[i]) for i in range(len(x))]
    if name == 'pad_start':
        v = o[2] if len(o) > 2 and o[2] is not None else (x[0] if x else None)
        return [v] * o[1] + x
    if name == 'pad_end':
        v = o[2] if len(o) > 2 and o[2] is not None else (x[-1] if x else None)
        return x + [v] * o[1]
    if name == 'start_with':
        return list(o[1]) + x
    if name == 'start_with_as':
        return list(opspecs.PADDINGS[o[1]]()) + x
    if name == 'batch':
        return [x[i:i + o[1]] for i in range(0, len(x), o[1])]
    raise ValueError(name)


def units(tier):
    out = []
    for o in OPS:
        for mode in ('api', 'raw2', 'plain'):
            if mode == 'plain' and o[0] not in PLAIN_OK:
                continue
            out.append({'op': o, 'mode': mode, 'tier': tier})
    for o in SORTS:
        out.append({'op': o, 'mode': 'plain', 'tier': tier})
    out.append({'long': True, 'tier': tier})
    return out


LARGE = [['take', 300], ['lag', 300], ['pad_start', 300, 9], ['pad_end', 300], ['batch', 300], ['batch', 257], ['start_with', list(range(300))]]


def cases(unit):
    tier = unit['tier']
    if unit.get('long'):
        # sequences far longer than any parameter, and parameters beyond the interpreter's small-int range
        yield {'op': ['sort'], 'mode': 'plain', 'seq': 'big'}
        for seq in spaces.sequences([None, 0, 1], 4):
            yield {'op': ['to_deque'], 'mode': 'plain', 'seq': seq}
        for seq in spaces.sequences([0, 1, 2], 6):
            yield {'op': ['distinct'], 'mode': 'tuples', 'seq': seq}
        for o in OPS:
            for seq in spaces.sequences([None, 0, 1], 3):
                yield {'op': o, 'mode': 'reuse', 'seq': seq}
        for o in OPS + SORTS + [['to_list']]:
            for seq in spaces.sequences([0, 1, 2] if o[0] == 'sort' else [None, 0, 1], 3):
                yield {'op': o, 'mode': 'resub', 'seq': seq}
        for o in OPS + LARGE:
            for n in (300, 599, 600, 601, 257) if o in LARGE else (300,):
                seq = [None if i % 7 == 3 else (i * 5) % 4 for i in range(n)]
                for mode in ('api', 'plain'):
                    if mode == 'plain' and o[0] not in PLAIN_OK:
                        continue
                    yield {'op': o, 'mode': mode, 'seq': seq}
        return
    o = unit['op']
    if o[0] == 'sort':
        for seq in spaces.sequences([0, 1, 2], 6 if tier == 'quick' else 7):
            yield {'op': o, 'mode': 'plain', 'seq': seq}
        return
    alpha = [None, 0, 1] if tier == 'quick' else [None, 0, 1, 2]
    n = (7 if unit['mode'] == 'api' else 6) if tier == 'quick' else (8 if unit['mode'] == 'api' else 7)
    if unit['mode'] == 'raw2' and tier == 'quick':
        n = 5
    for seq in spaces.sequences(alpha, n):
        yield {'op': o, 'mode': unit['mode'], 'seq': seq}


def viol(o, mode, sym, detail):
    return {'signature': 'C10|%s|%s|%s' % (o[0], 'plain' if mode == 'plain' else 'mux', sym), 'detail': detail}


def classify(o, seq, exp, got):
    kind = harness.diff_kind(exp, got)
    if o[0] == 'batch':
        if seq and len(seq) % o[1] == 0 and len(got) == len(exp) + 1:
            return 'extra-final-batch-when-size-divides-count'
        if not seq and got == [[]]:
            return 'empty-batch-for-empty-source'
        if got and any(len(b) != o[1] for b in got[:-1]):
            return 'batch-of-wrong-size'
    if o[0] == 'duc' and seq and seq[0] is None and got == exp[1:]:
        return 'leading-None-dropped'
    return kind


def run_case(case, acc):
    if case['seq'] == 'big':
        # more items than any internal buffer size: 70 000 items, sorted output must be a stable ordered permutation
        n = 70000
        items = [((i * 7919) % 1000, i) for i in range(n)]
        sink, ctx = harness.run_plain([['sort', 'first_of']], items)
        acc.evals += 1
        acc.events += n
        if sink.error is not None or sink.items != sorted(items, key=lambda t: t[0]):
            return [viol(['sort'], 'plain', 'large-input-not-a-stable-ordered-permutation', {'n': n, 'emitted': len(sink.items), 'error': repr(sink.error)})]
        return []
    o, mode, seq = case['op'], case['mode'], list(case['seq'])
    out = []
    if o[0] == 'to_deque':
        # to_deque() buffers the items and emits them unchanged, in order, when the source completes; extend=True flattens
        import rx
        import rxsci as rs
        from ..drivers import Sink
        for extend, items, exp in ((False, seq, seq), (True, [[x, x] for x in seq], [y for x in seq for y in (x, x)])):
            sink = Sink()
            sink.subscribe_to(rx.from_(items).pipe(rs.data.to_deque(extend=extend)))
            acc.evals += 1
            acc.traces += 1
            if sink.error is not None or sink.completed != 1 or sink.items != exp:
                return [viol(o, 'plain', 'to_deque-differs', {'extend': extend, 'items': items, 'observed': sink.items})]
        return []
    if mode == 'tuples':
        # values whose hashes collide although they differ: ('a', -1) / ('a', -2) ; equal but distinct objects
        pool = [tuple(['a', -1]), tuple(['a', -2]), tuple(['b', -1])]
        items = [tuple(pool[i]) for i in seq]
        exp = listdef(o, items)
        sink, ctx, store = harness.run_api([o], items)
        acc.evals += 1
        acc.events += len(items) + 1
        acc.traces += 1
        if sink.error is not None or sink.items != exp:
            return [viol(o, 'mux', 'tuple-items-' + str(harness.diff_kind(exp, sink.items)), {'items': items, 'expected': exp, 'observed': sink.items})]
        return []
    if mode == 'resub':
        # the same observable (same operator objects) subscribed a second time emits the same items again
        out = []
        keyed = o[0] == 'sort' and len(o) > 1 and o[1] is not None
        items = [(v, i) for i, v in enumerate(seq)] if keyed else list(seq)
        for mux in (True, False):
            if (not mux and o[0] not in PLAIN_OK and o[0] not in ('sort', 'to_list')) or (mux and o[0] == 'sort'):
                continue
            if not seq and ((not mux and o[0] in ('first', 'last')) or o[0] in ('pad_start', 'pad_end', 'start_with', 'start_with_as')):
                continue
            a, b = harness.run_twice([o], items, mux=mux)
            acc.evals += 2
            acc.events += 2 * (len(seq) + 1)
            acc.traces += 2
            acc.count('second_subscriptions')
            if a.error is None and not harness.same_outcome(a, b):
                out.append(viol(o, 'api' if mux else 'plain', 'second-subscription-differs',
                                {'op': o, 'items': items, 'first': [a.items, a.status()], 'second': [b.items, b.status()]}))
        return out
    if mode == 'reuse':
        # the key lives three times on the same index: items, then an EMPTY lifetime, then items again
        # (what the padding operators do with an empty lifetime is not defined: for them the middle lifetime is left out,
        # and so is the whole case when the sequence itself is empty)
        padding_op = o[0] in ('pad_start', 'pad_end', 'start_with', 'start_with_as')
        if padding_op and not seq:
            return []
        middle = [] if padding_op else [('c', 0), ('d', 0)]
        events = [('c', 0)] + [('n', 0, x) for x in seq] + [('d', 0)] + middle + [('c', 0)] + [('n', 0, x) for x in reversed(seq)] + [('d', 0)]
        sink = run_raw_mux(opspecs.build([o]), events)
        acc.evals += 1
        acc.events += len(events) + 1
        acc.traces += 1
        exp = [('c', (0,))] + [('n', (0,), y) for y in listdef(o, seq)] + [('d', (0,))] + [(e[0], (0,)) for e in middle] + [('c', (0,))] + \
              [('n', (0,), y) for y in listdef(o, list(reversed(seq)))] + [('d', (0,))]
        if sink.error is not None or sink.items != exp:
            return [viol(o, 'mux', 'reused-key-' + str(harness.diff_kind(exp, sink.items)), {'op': o, 'events': events, 'expected': exp, 'observed': sink.items})]
        return []
    if o[0] == 'sort':
        return run_sort(case, acc)
    spec = [o]
    undefined_empty = (not seq) and o[0] in ('pad_start', 'pad_end', 'start_with', 'start_with_as')
    exp = listdef(o, seq)
    # refmodel must agree with the list definition (harness self-check, never a VIOLATION)
    if not undefined_empty and harness.model_all(spec, seq) != exp:
        raise AssertionError('refmodel disagrees with list definition for %r on %r' % (o, seq))
    if mode == 'plain':
        if not seq and o[0] in ('first', 'last'):
            acc.skipped += 1
            return []
        sink, ctx = harness.run_plain(spec, seq)
        got = sink.items
        acc.evals += 1
        acc.events += len(seq) + 1
    elif mode == 'api':
        sink, ctx, store = harness.run_api([['tap', 'h'], o, ['tap', 't']], seq, track_states=True)
        got = sink.items
        acc.evals += 1
        acc.events += len(seq) + 1
        acc.states.update(ctx.states)
    else:
        busy = [50 + i for i in range(len(seq) + 2)]
        events = [('c', 1), ('c', 0), ('n', 1, busy[0])]
        for i, x in enumerate(seq):
            events.append(('n', 0, x))
            events.append(('n', 1, busy[i + 1]))
        events += [('d', 0), ('n', 1, busy[-1]), ('d', 1)]
        ctx = opspecs.Ctx(True)
        sink = run_raw_mux(opspecs.build([['tap', 'h'], o, ['tap', 't']], ctx), events)
        got = [e[2] for e in sink.items if e[0] == 'n' and e[1] == (0,)]
        got1 = [e[2] for e in sink.items if e[0] == 'n' and e[1] == (1,)]
        exp1 = listdef(o, busy)
        acc.evals += 1
        acc.events += len(events) + 1
        acc.states.update(ctx.states)
        if got1 != exp1:
            out.append(viol(o, mode, 'busy-key-' + str(classify(o, busy, exp1, got1)),
                            {'op': o, 'events': events, 'expected_key1': exp1, 'observed_key1': got1}))
    acc.traces += 1
    sp = harness.status_problem(sink)
    if sp and not undefined_empty:
        out.append(viol(o, mode, sp, {'op': o, 'seq': seq, 'error': repr(sink.error)}))
    if undefined_empty:
        acc.skipped += 1
    elif got != exp:
        out.append(viol(o, mode, classify(o, seq, exp, got), {'op': o, 'seq': seq, 'expected': exp, 'observed': got}))
    acc.outcomes.add(fast_hash(repr((o, got))))
    if len(seq) >= 2 and exp != seq:
        acc.nontrivial.add(fast_hash(repr(case)))
    if None in seq:
        acc.count('with_None_item')
    if o[0] == 'batch' and seq and len(seq) % o[1] == 0:
        acc.count('batch_size_divides_count')
    return out


def run_sort(case, acc):
    o, seq = case['op'], case['seq']
    keyed = len(o) > 1 and o[1] is not None
    rev = len(o) > 2 and o[2]
    items = [(v, i) for i, v in enumerate(seq)] if keyed else list(seq)
    sink, ctx = harness.run_plain([o], items)
    acc.evals += 1
    acc.events += len(items) + 1
    acc.traces += 1
    got = sink.items
    out = []
    sp = harness.status_problem(sink)
    if sp:
        out.append(viol(o, 'plain', sp, {'seq': seq}))
    if not harness.same_multiset(items, got):
        out.append(viol(o, 'plain', 'not-a-permutation', {'items': items, 'observed': got}))
    else:
        kf = (lambda t: t[0]) if keyed else (lambda v: v)
        keys = [kf(g) for g in got]
        ordered = all((keys[i] >= keys[i + 1]) if rev else (keys[i] <= keys[i + 1]) for i in range(len(keys) - 1))
        if not ordered:
            out.append(viol(o, 'plain', 'not-ordered', {'items': items, 'observed': got}))
        elif keyed and any(got[i][0] == got[i + 1][0] and got[i][1] > got[i + 1][1] for i in range(len(got) - 1)):
            out.append(viol(o, 'plain', 'not-stable', {'items': items, 'observed': got}))
    acc.outcomes.add(fast_hash(repr((o, got))))
    if len(seq) >= 2 and got != items:
        acc.nontrivial.add(fast_hash(repr(case)))
    return out


def guards(acc, tier):
    msgs = []
    for name in ('with_None_item', 'batch_size_divides_count'):
        if acc.counters.get(name, 0) < 1:
            msgs.append('no execution with %s' % name)
    if len(acc.outcomes) < 500:
        msgs.append('fewer than 500 distinct outcomes')
    return msgs


def unit_test(case):
    o, seq = case['op'], list(case['seq'])
    if o[0] == 'sort' or case['mode'] == 'raw2':
        return None
    return harness.unit_test_api([o], seq, listdef(o, seq), mux=case['mode'] != 'plain')
