"""C04 - group_by partitions the stream by key, preserving order within each group."""
from .. import opspecs, spaces, harness
from ..drivers import lifetimes, run_raw_mux
from ..engine import fast_hash

ID = 'C04'
TITLE = 'group_by partitions the stream by key, preserving order within each group'
LEVEL = 'model_checking'
RULE = ('every item sequence up to the length bound over 5-6 key classes whose key values are equal (==) but never identical '
        'objects (big ints, tuples and strings built at run time, 1 / 1.0, None) x inner pipelines {to_list, identity, '
        'count(reduce), last, take(1)}; group_by nested in group_by, roll and split; group_by on every well-formed raw-mux '
        'event sequence with two parent keys (group indices of different parents must not collide). Output sequence and the '
        'group lifetimes at the head of the inner pipeline are compared with a partition-by-equality model. '
        'Non-trivial = at least two groups and one group with two items.')
DEEP_PROBES = ('keys with equal hashes, four distinct falsy keys, 10-13 inner groups spread over two parents in all 2^n ways, 129 / 300 (65 544 thorough) live groups, 600 (40 000 thorough) items of group churn, two group_by operators under lifetime creators')
ASSUMPTIONS = ['key_mapper is total and pure and returns hashable values',
               'sequence lengths and class counts beyond the bound are not covered']
LEVEL_TEXT = ('Bounded-exhaustive model checking of the real group_by operator against a partition-by-== model over all '
              'short sequences and key flavours where equality and identity differ, in all nestings named by the property.')
LEVEL_NOTE = 'Trusted: the partition model (setdefault over == lookup) in mc/refmodel.GroupBy and in this file.'
TECHNIQUE = 'stateless bounded-exhaustive exploration of the real operator against a partition-by-equality model'

INNERS = {
    'to_list': [['tap', 'h'], ['to_list'], ['tap', 't']],
    'identity': [['tap', 'h'], ['identity']],
    'count': [['tap', 'h'], ['count', True]],
    'last': [['tap', 'h'], ['last']],
    'take1': [['tap', 'h'], ['take', 1]],
}


def bounds(tier):
    return {'max_len': 7 if tier == 'quick' else 8, 'key_classes': 5, 'inner_pipelines': list(INNERS)}


ENTRY_SPECS = [[['group_by', 'mod3', [['to_list']]]], [['group_by', 'mod3', [['count', True]]]], [['group_by', 'mod2', [['group_by', 'mod3', [['to_list']]]]]]]
ENTRY_OTHER = [['group_by', 'mod2', [['scan', 'add', '0']]]]
ENTRY_ITEMS = [[0, 1, 3, 4, 2], [5, 6, 8]]


def units(tier):
    out = []
    out.append({'fam': 'sharedlist'})
    out.append({'fam': 'entry'})
    L = 7 if tier == 'quick' else 8
    n = 8 if tier == 'quick' else 32
    for inner in INNERS:
        Li = L if inner == 'to_list' else (L - 1 if tier != 'quick' else L - 2)
        for sh in range(n):
            out.append({'fam': 'top', 'inner': inner, 'L': Li, 'shard': [sh, n]})
    for sh in range(4):
        out.append({'fam': 'top', 'inner': 'to_list', 'L': 5 if tier == 'quick' else 6, 'shard': [sh, 4], 'alpha': [6, 7, 8, 9, 3]})
    out.append({'fam': 'many', 'wide': True, 'shard': [0, 1], 'tier': tier})
    for sh in range(2):
        out.append({'fam': 'top', 'inner': 'to_list', 'L': 5 if tier == 'quick' else 6, 'shard': [sh, 2], 'alpha': [0, 1, 2, 3, 4], 'keyf': 'k_falsy'})
        out.append({'fam': 'top', 'inner': 'to_list', 'L': 5 if tier == 'quick' else 6, 'shard': [sh, 2], 'alpha': [0, 1, 2, 3, 4], 'keyf': 'k_bool'})
    ng = 10 if tier == 'quick' else 13
    for sh in range(8):
        out.append({'fam': 'many', 'groups': ng, 'shard': [sh, 8]})
    Ln = 5 if tier == 'quick' else 7
    for fam in ('ingroup', 'inroll21', 'inroll22', 'insplit', 'groupgroup_stream', 'split_gg', 'g_roll_g', 'roll_gg'):
        for sh in range(4):
            out.append({'fam': fam, 'L': Ln, 'shard': [sh, 4]})
    d = 8 if tier == 'quick' else 10
    nr = 8 if tier == 'quick' else 32
    for sh in range(nr):
        out.append({'fam': 'raw', 'depth': d, 'shard': [sh, nr]})
    return out


def cases(unit):
    if unit.get('fam') == 'sharedlist':
        yield {'fam': 'sharedlist'}
        return
    if unit.get('fam') == 'entry':
        # the operator reached through the `sources=` entry point of with_store: two live sources share one store
        for si in range(len(ENTRY_SPECS)):
            for order in spaces.interleavings([len(ENTRY_ITEMS[0]), len(ENTRY_ITEMS[1])]):
                yield {'fam': 'entry', 'spec': si, 'order': order}
        return
    sh, n = unit['shard']
    fam = unit['fam']
    if fam == 'top':
        for i, seq in enumerate(spaces.sequences(unit.get('alpha', [0, 1, 2, 3, 4]), unit['L'])):
            if i % n == sh:
                yield dict({'fam': 'top', 'inner': unit['inner'], 'seq': seq}, **({'keyf': unit['keyf']} if unit.get('keyf') else {}))
    elif fam == 'many' and unit.get('wide'):
        yield {'fam': 'wide', 'n': 300}
        yield {'fam': 'wide', 'n': 129}
        yield {'fam': 'wide', 'n': 65544}
        yield {'fam': 'churn', 'n': 40000}
        yield {'fam': 'churn', 'n': 600}
    elif fam == 'many':
        # many groups: the j-th new inner group belongs to parent bit j of the mask (all 2^n assignments)
        for mask in range(2 ** unit['groups']):
            if mask % n == sh:
                yield {'fam': 'many', 'groups': unit['groups'], 'mask': mask}
    elif fam == 'raw':
        for i, seq in enumerate(spaces.wf_sequences([0, 1], [0, 1], unit['depth'])):
            if i % n == sh:
                yield {'fam': 'raw', 'events': [list(e) for e in seq]}
    else:
        for i, seq in enumerate(spaces.sequences([0, 1, 3, 4], unit['L'])):
            if i % n == sh:
                yield {'fam': fam, 'seq': seq}


def partition(items, keyf):
    groups = []
    for x in items:
        k = keyf(x)
        for g in groups:
            if g[0] == k:
                g[1].append(x)
                break
        else:
            groups.append((k, [x]))
    return [g[1] for g in groups]


def viol(fam, sym, detail):
    return {'signature': 'C04|%s|%s' % (fam, sym), 'detail': detail}


def run_case(case, acc):
    if case.get('fam') == 'sharedlist':
        # one list object used as the pipeline of two operators
        import rxsci as rs
        d = harness.shared_list_problem(lambda L: rs.ops.group_by(lambda x: x % 2, L), lambda L: rs.ops.group_by(lambda x: x % 3, L), [0, 1, 2, 3, 4, 5])
        acc.evals += 3
        acc.count('shared_pipeline_lists')
        return [viol('sharedlist', 'pipeline-list-shared-by-two-operators', d)] if d else []
    if case.get('fam') == 'entry':
        specs = [ENTRY_SPECS[case['spec']], ENTRY_OTHER]
        acc.evals += 1
        acc.traces += 2
        acc.events += len(case['order']) + 2
        acc.count('sources_entry_point_runs')
        acc.outcomes.add(fast_hash(repr(case)))
        return [viol('entry', 'sources-entry-point-source-%d-output-%s' % (k, kind), {'pipelines': specs, 'order': case['order'], 'expected': exp, 'observed': got, 'error': err}) for (k, kind, exp, got, err) in harness.sources_problems(specs, ENTRY_ITEMS, case['order'])][:1]
    fam = case['fam']
    if fam == 'raw':
        return run_raw(case, acc)
    if fam == 'many':
        return run_many(case, acc)
    if fam == 'churn':
        # far more groups created over the run than are ever alive: overlapping windows, two groups per window, per-item results
        n = case['n']
        opspecs.FUNCS['k_par'] = lambda x: 1000 + x % 2
        items = list(range(n))
        spec = [['roll', 2, 1, [['group_by', 'k_par', [['scan', 'add', '0']]], ['to_list']]]]
        sink, ctx, store = harness.run_api(spec, items)
        acc.evals += 1
        acc.events += n
        acc.traces += 1
        exp = [[items[i], items[i + 1]] for i in range(n - 1)] + [[items[-1]]]
        out = []
        if sink.error is not None or sink.items != exp:
            bad = next((i for i, (a, b) in enumerate(zip(exp, sink.items)) if a != b), min(len(exp), len(sink.items)))
            out.append(viol('churn', 'windows-differ', {'n': n, 'first_difference_at_window': bad, 'emitted': len(sink.items), 'error': repr(sink.error)}))
        acc.nontrivial.add(fast_hash(repr(case)))
        return out
    if fam == 'wide':
        # hundreds of groups (indices and key values beyond the interpreter's small-int range), three interleaved passes
        n = case['n']
        opspecs.FUNCS['k_wide'] = lambda x, n=n: 1000 + (x % n)
        items = list(range(n)) + list(range(n - 1, -1, -1)) + [x for x in range(n) if x % 3 == 0]
        spec = [['group_by', 'k_wide', [['to_list']]]]
        sink, ctx, store = harness.run_api(spec, items)
        acc.evals += 1
        acc.events += len(items) + 1
        acc.traces += 1
        groups = {}
        for x in items:                       # keys are plain ints here: a dict gives the partition by equality
            groups.setdefault(1000 + x % n, []).append(x)
        exp = list(groups.values())
        out = []
        sp = harness.status_problem(sink)
        if sp:
            out.append(viol('wide', sp, {'groups': n, 'error': repr(sink.error)}))
        kind = harness.diff_kind(exp, sink.items)
        if kind:
            out.append(viol('wide', 'to_list-output-' + kind, {'groups': n, 'expected_first': exp[:3], 'observed_first': sink.items[:3]}))
        acc.nontrivial.add(fast_hash(repr(case)))
        acc.outcomes.add(fast_hash(repr(sink.items)))
        return out
    items = [10 * i + c for i, c in enumerate(case['seq'])]
    keyf = opspecs.F(case.get('keyf', 'k_mixed'))
    if fam == 'top':
        spec = [['group_by', case.get('keyf', 'k_mixed'), INNERS[case['inner']]]]
    elif fam == 'ingroup':
        opspecs.FUNCS.setdefault('k_lt3', lambda x: 10 ** 20 + (1 if x % 10 < 3 else 0))
        spec = [['group_by', 'k_lt3', [['group_by', 'k_mixed', INNERS['to_list']], ['to_list']]]]
    elif fam == 'groupgroup_stream':
        opspecs.FUNCS.setdefault('k_lt3', lambda x: 10 ** 20 + (1 if x % 10 < 3 else 0))
        spec = [['group_by', 'k_lt3', [['group_by', 'k_mixed', [['identity']]]]]]
    elif fam in ('split_gg', 'g_roll_g', 'roll_gg'):
        # two group_by operators in one pipeline under a parent whose lifetimes end mid-stream
        opspecs.FUNCS.setdefault('k_lt3', lambda x: 10 ** 20 + (1 if x % 10 < 3 else 0))
        opspecs.FUNCS.setdefault('p_tens_even', lambda x: (x // 10) % 2 == 0)
        gg = [['group_by', 'k_lt3', [['group_by', 'k_mixed', [['to_list']]], ['to_list']]]]
        if fam == 'split_gg':
            spec = [['split', 'p_tens_even', gg + [['to_list']]]]
        elif fam == 'roll_gg':
            spec = [['roll', 3, 3, gg + [['to_list']]]]
        else:
            spec = [['group_by', 'k_lt3', [['roll', 2, 2, [['group_by', 'k_mixed', [['to_list']]], ['to_list']]], ['to_list']]]]
    elif fam == 'inroll21':
        spec = [['roll', 2, 1, [['group_by', 'k_mixed', [['to_list']]], ['to_list']]]]
    elif fam == 'inroll22':
        spec = [['roll', 3, 2, [['group_by', 'k_mixed', [['to_list']]], ['to_list']]]]
    elif fam == 'insplit':
        opspecs.FUNCS.setdefault('p_lt3', lambda x: 10 ** 20 + (1 if x % 10 < 3 else 0))
        spec = [['split', 'p_lt3', [['group_by', 'k_mixed', [['to_list']]], ['to_list']]]]
    else:
        raise ValueError(fam)
    twice = len(items) <= 4
    sink, ctx, store = harness.run_api(spec, items, track_states=True, twice=twice)
    acc.evals += 2 if twice else 1
    acc.events += (len(items) + 1) * (2 if twice else 1)
    acc.traces += 2 if twice else 1
    exp = harness.model_all(spec, items)
    out = []
    sp = harness.status_problem(sink)
    if sp:
        out.append(viol(fam, sp, {'spec': spec, 'items': items, 'error': repr(sink.error)}))
    if twice:
        acc.count('second_subscriptions')
        d = harness.second_problem(sink)
        if d:
            out.append(viol(fam, 'second-subscription-differs', dict(d, spec=spec, items=items)))
    kind = harness.diff_kind(exp, sink.items)
    if kind:
        out.append(viol(fam, '%s-output-%s' % (case.get('inner', 'to_list'), kind),
                        {'spec': spec, 'items': items, 'expected': exp, 'observed': sink.items}))
    if fam == 'top':
        parts = partition(items, keyf)
        if case['inner'] == 'to_list' and exp != parts:
            raise AssertionError('refmodel disagrees with the partition definition')
        lts, problems = lifetimes(ctx.log('h'))
        if problems:
            out.append(viol(fam, 'group-lifecycle-broken', {'problems': problems[:5], 'items': items}))
        else:
            got = [l[1] for l in lts]
            if got != parts:
                k2 = harness.diff_kind(parts, got)
                out.append(viol(fam, 'groups-' + str(k2), {'items': items, 'expected_groups': parts, 'observed_groups': got}))
            if any(not l[2] for l in lts):
                out.append(viol(fam, 'group-never-completed', {'items': items}))
            # completion in order of first appearance
            closed = [ev[1] for ev in ctx.log('h') if ev[0] == 'd']
            opened = [l[0] for l in lts]
            if closed != opened:
                out.append(viol(fam, 'groups-completed-out-of-first-appearance-order', {'opened': opened, 'closed': closed}))
            if len(set(k[0] for k in opened)) != len(opened):
                out.append(viol(fam, 'two-live-groups-share-an-index', {'opened': opened}))
        if len(parts) >= 2 and any(len(p) >= 2 for p in parts):
            acc.nontrivial.add(fast_hash(repr(case)))
        if 6 in case['seq'] and 7 in case['seq']:
            acc.count('distinct_keys_with_equal_hash')
        if any(c in (3, 4) for c in case['seq']) and 3 in case['seq'] and 4 in case['seq']:
            acc.count('int_float_equal_keys')
        if case['seq'].count(0) >= 2 or case['seq'].count(1) >= 2 or case['seq'].count(2) >= 2:
            acc.count('equal_nonidentical_keys')
    elif len(exp) >= 2:
        acc.nontrivial.add(fast_hash(repr(case)))
    acc.states.update(ctx.states)
    acc.outcomes.add(fast_hash(repr(sink.items)))
    return out


def run_many(case, acc):
    """group_by > group_by > to_list with 10+ inner groups spread over two parents in every possible way: group indices of
    one parent are then arbitrary subsets of 0..n-1, and completion must still follow first appearance."""
    n, mask = case['groups'], case['mask']
    items = [100 * ((mask >> j) & 1) + j for j in range(n)] + [100 * (mask & 1) + 0]
    spec = [['group_by', 'div100', [['group_by', 'mod100', [['to_list']]]]]]
    sink, ctx, store = harness.run_api(spec, items)
    acc.evals += 1
    acc.events += len(items) + 1
    acc.traces += 1
    exp = harness.model_all(spec, items)
    out = []
    sp = harness.status_problem(sink)
    if sp:
        out.append(viol('many', sp, {'items': items, 'error': repr(sink.error)}))
    kind = harness.diff_kind(exp, sink.items)
    if kind:
        out.append(viol('many', 'groups-completed-out-of-first-appearance-order' if kind == 'order' else 'to_list-output-' + kind,
                        {'spec': spec, 'items': items, 'expected': exp, 'observed': sink.items}))
    acc.outcomes.add(fast_hash(repr(sink.items)))
    acc.nontrivial.add(fast_hash(repr(case)))
    acc.count('many_groups')
    return out


def run_raw(case, acc):
    """group_by directly on a raw mux stream: two parent keys (adjacent indices), empty parents, parent reuse."""
    events = []
    pos = 0
    for e in case['events']:
        if e[0] == 'n':
            events.append(('n', e[1], 100 * e[1] + 10 * (pos % 10) + e[2]))
            pos += 1
        else:
            events.append(tuple(e))
    ctx = opspecs.Ctx(True)
    sink = run_raw_mux(opspecs.build([['group_by', 'k_mixed', INNERS['to_list']]], ctx), events)
    acc.evals += 1
    acc.events += len(events) + 1
    acc.traces += 1
    keyf = opspecs.F('k_mixed')
    exp = []
    cur = {}
    for ev in events:
        k = (ev[1],)
        if ev[0] == 'c':
            exp.append(('c', k))
            cur[k] = []
        elif ev[0] == 'n':
            cur[k].append(ev[2])
        else:
            for g in partition(cur[k], keyf):
                exp.append(('n', k, g))
            exp.append(('d', k))
            del cur[k]
    out = []
    sp = harness.status_problem(sink)
    if sp:
        out.append(viol('raw', sp, {'events': events}))
    kind = harness.diff_kind(exp, sink.items)
    if kind:
        out.append(viol('raw', 'output-' + kind, {'events': events, 'expected': exp, 'observed': sink.items}))
    lts, problems = lifetimes(ctx.log('h'))
    if problems:
        out.append(viol('raw', 'group-lifecycle-broken', {'problems': problems[:5], 'events': events}))
    # no two simultaneously live groups may share their slot index
    live = {}
    for ev in ctx.log('h'):
        if ev[0] == 'c':
            if ev[1][0] in live:
                out.append(viol('raw', 'two-live-groups-share-an-index', {'events': events, 'key': ev[1], 'other': live[ev[1][0]]}))
                break
            live[ev[1][0]] = ev[1]
        elif ev[0] == 'd':
            live.pop(ev[1][0], None)
    if len(set(e[1] for e in events)) > 1:
        acc.count('two_parent_keys')
    acc.states.update(ctx.states)
    acc.outcomes.add(fast_hash(repr(sink.items)))
    if len([e for e in exp if e[0] == 'n']) >= 2:
        acc.nontrivial.add(fast_hash(repr(case)))
    return out


def guards(acc, tier):
    msgs = []
    for name in ('int_float_equal_keys', 'equal_nonidentical_keys', 'two_parent_keys', 'distinct_keys_with_equal_hash', 'many_groups'):
        if acc.counters.get(name, 0) < 1:
            msgs.append('no execution with %s' % name)
    if len(acc.outcomes) < 100:
        msgs.append('fewer than 100 distinct outcomes')
    return msgs


def unit_test(case):
    if case['fam'] != 'top':
        return None
    items = [10 * i + c for i, c in enumerate(case['seq'])]
    spec = [['group_by', 'k_mixed', INNERS[case['inner']]]]
    return harness.unit_test_api(spec, items, harness.model_all(spec, items))
