"""C09 - scan/reduce algebra: running folds, final fold, per-key seed isolation."""
import copy

import rx
import rxsci as rs

from .. import opspecs, spaces, harness
from ..drivers import run_raw_mux, MuxSink, Sink, snap, compact, new_store, mux_events, tap
from ..engine import fast_hash

ID = 'C09'
TITLE = 'scan/reduce algebra: running folds, final fold, and per-key seed isolation'
LEVEL = 'model_checking'
RULE = ('scan on every well-formed raw-mux event sequence (2-3 keys, 2 values, empty keys, key-index reuse) up to the depth '
        'bound x accumulators {int sum, tuple (sum,count), list append that mutates and returns its accumulator, nested '
        'mutable seed ([],0), dict counter} x seed given as value / as factory x reduce on/off x terminator on/off; '
        'scan on plain observables (all value sequences, subscribed twice); every operator defined through scan (count, sum, '
        'mean, min, max, to_list, to_array, batch, distinct_until_changed, progress, dist.update) against its fold '
        'definition per key lifetime. Compared on every execution: emitted sequence == itertools-style left fold; the user '
        'seed object is unchanged; the terminator ran exactly once per lifetime; no mutable object emitted for one lifetime '
        'is (by identity) the user seed or an object emitted for another lifetime. Non-trivial = two keys live at once or a '
        'key index reused, with at least two items.')
DEEP_PROBES = ('lifetimes of 200 and 2x130 items for every derived operator; sparse key indices 3 / 12; values {-1, 0}; a float accumulator through 0.0 and -0.0')
ASSUMPTIONS = ['accumulators are pure apart from mutating their own accumulator argument, and return the seed type',
               'depth / number of keys / value alphabet beyond the bounds are not covered']
LEVEL_TEXT = ('Bounded-exhaustive model checking of scan_mux / scan_obs and the operators built on them over every '
              'well-formed mux history up to the depth bound, against a left-fold reference model, plus object-identity '
              'invariants that make shared seeds visible even when the values are equal.')
LEVEL_NOTE = 'Trusted: the left-fold model (mc/refmodel.Scan) and the invariants in this file.'
TECHNIQUE = 'stateless bounded-exhaustive exploration of real scan pipelines against a left-fold reference model'

ACCS = [
    # name, seed name, terminator (or None) that keeps the seed type
    ('add', '0', 't_neg'),
    ('sumcount', 'pair00', 't_wrap'),
    ('append', 'emptylist', 't_wrap'),
    ('append_nested', 'nested', 't_wrap'),
    ('dictcount', 'emptydict', 't_wrap'),
    ('nullable', 'tup100', 't_wrap'),     # accumulator returns None on value 2 although the seed is not None: None is a stored value, not 'not set'
    ('mulsign', '1.0', 't_neg'),          # float state through 0.0 and -0.0 (values 0,1,2 -> factors -1,0,1)
]
DERIVED = [
    [['count']], [['count', True]], [['sum']], [['sum', True]], [['mean']], [['mean', True]],
    [['min']], [['min', True]], [['max']], [['max', True]], [['to_list']], [['to_array', 'q']],
    [['batch', 2]], [['batch', 1]], [['duc']], [['progress', 2]],
    [['scan', 'add', '0', True], ['scan', 'add', '0']],
]


def bounds(tier):
    return {'raw_depth_2keys': 8 if tier == 'quick' else 9, 'raw_depth_3keys': 7 if tier == 'quick' else 8,
            'plain_len': 5 if tier == 'quick' else 6, 'accumulators': [a[0] for a in ACCS]}


def units(tier):
    out = []
    d2 = 8 if tier == 'quick' else 9
    d3 = 7 if tier == 'quick' else 8
    n = 4 if tier == 'quick' else 16
    for ai in range(len(ACCS)):
        for factory in (False, True):
            for reduce in (False, True):
                for term in (False, True):
                    for sh in range(n):
                        out.append({'fam': 'scan', 'acc': ai, 'factory': factory, 'reduce': reduce, 'term': term,
                                    'keys': [0, 1], 'depth': d2, 'shard': [sh, n]})
                    out.append({'fam': 'scan', 'acc': ai, 'factory': factory, 'reduce': reduce, 'term': term,
                                'keys': [0, 1, 3], 'depth': d3, 'values': [1], 'shard': [0, 1]})
                    out.append({'fam': 'plain', 'acc': ai, 'factory': factory, 'reduce': reduce, 'term': term,
                                'L': 5 if tier == 'quick' else 6})
    for ai in range(len(ACCS)):
        for reduce in (False, True):
            out.append({'fam': 'scan', 'acc': ai, 'factory': False, 'reduce': reduce, 'term': reduce, 'keys': [3, 12], 'depth': d3,
                        'values': [1, 2], 'shard': [0, 1]})
    for di in range(len(DERIVED)):
        for sh in range(n):
            out.append({'fam': 'derived', 'spec': di, 'keys': [0, 1], 'depth': d2, 'shard': [sh, n]})
        out.append({'fam': 'long', 'spec': di})
    for sh in range(n):
        out.append({'fam': 'dist', 'keys': [0, 1], 'depth': d2 - 1, 'shard': [sh, n]})
    return out


def cases(unit):
    fam = unit['fam']
    if fam == 'plain':
        for seq in spaces.sequences([0, 1, 2] if ACCS[unit['acc']][0] == 'mulsign' else [1, 2], unit['L']):
            yield dict(unit, seq=seq)
        return
    if fam == 'long':
        # long lifetimes (beyond any internal chunk size): one key with 200 items; two interleaved keys with 130 items each
        yield {'fam': 'derived', 'spec': unit['spec'], 'events': [['c', 0]] + [['n', 0, 1 + (i * 7) % 3] for i in range(200)] + [['d', 0]]}
        ev = [['c', 0], ['c', 1]]
        for i in range(130):
            ev += [['n', 0, 1 + i % 2], ['n', 1, 2 - i % 2]]
        yield {'fam': 'derived', 'spec': unit['spec'], 'events': ev + [['d', 1], ['d', 0]]}
        return
    sh, n = unit['shard']
    for i, seq in enumerate(spaces.wf_sequences(unit['keys'], unit.get('values', [1, 2]), unit['depth'])):
        if i % n == sh:
            c = {k: v for k, v in unit.items() if k not in ('shard', 'depth', 'keys', 'values')}
            c['events'] = [list(e) for e in seq]
            yield c


def viol(fam, sym, detail):
    return {'signature': 'C09|%s|%s' % (fam, sym), 'detail': detail}


class RefSink(MuxSink):
    """Keeps the emitted objects themselves (for identity checks) next to their snapshots."""

    def __init__(self):
        super().__init__()
        self.raw = []

    def on_next(self, i):
        super().on_next(i)
        self.raw.append(i)


def mutable_parts(x):
    out = []
    if isinstance(x, (list, dict)):
        out.append(x)
        for y in (x.values() if isinstance(x, dict) else x):
            out.extend(mutable_parts(y))
    elif isinstance(x, tuple):
        for y in x:
            out.extend(mutable_parts(y))
    return out


def run_case(case, acc):
    fam = case['fam']
    if fam == 'derived':
        return run_derived(case, acc)
    if fam == 'dist':
        return run_dist(case, acc)
    accname, seedname, termname = ACCS[case['acc']]
    f = opspecs.F(accname)
    calls = []
    term = None
    if case['term']:
        tf = opspecs.F(termname)

        def term(a):
            calls.append(1)
            return tf(a)
    factory = opspecs.SEEDS[seedname]
    seed_obj = factory if case['factory'] else factory()
    pristine = None if case['factory'] else copy.deepcopy(seed_obj)
    op = rs.ops.scan(f, seed_obj, reduce=case['reduce'], terminator=term)
    label = '%s|%s|%s|%s' % (accname, 'factory' if case['factory'] else 'value',
                             'reduce' if case['reduce'] else 'stream', 'term' if case['term'] else 'noterm')
    mk = lambda: opspecs.M.Scan(f, factory, case['reduce'], opspecs.F(termname) if case['term'] else None)
    out = []
    if fam == 'plain':
        seq = case['seq']
        obs = rx.from_(seq).pipe(op)
        m = mk()
        exp = []
        for x in seq:
            exp.extend(m.item(x))
        exp.extend(m.end())
        for round_ in (1, 2):
            sink = Sink()
            sink.subscribe_to(obs)
            acc.evals += 1
            acc.events += len(seq) + 1
            acc.traces += 1
            sp = harness.status_problem(sink)
            if sp:
                out.append(viol('plain', sp, {'cfg': label, 'seq': seq}))
            kind = harness.diff_kind(exp, sink.items)
            if kind:
                out.append(viol('plain', 'fold-%s%s' % (kind, '-on-second-subscription' if round_ == 2 and not out else ''),
                                {'cfg': label, 'seq': seq, 'expected': exp, 'observed': sink.items}))
        if case['term'] and len(calls) != 2:
            out.append(viol('plain', 'terminator-called-%d-times' % (len(calls) // 2), {'cfg': label, 'seq': seq}))
        if pristine is not None and seed_obj != pristine:
            out.append(viol('plain', 'user-seed-mutated', {'cfg': label, 'seq': seq, 'seed_now': snap(seed_obj)}))
        acc.outcomes.add(fast_hash(repr((label, sink.items))))
        if len(seq) >= 2:
            acc.nontrivial.add(fast_hash(repr(case)))
        return out

    events = [tuple(e) for e in case['events']]
    if accname == 'mulsign':
        events = [('n', e[1], e[2] - 1 + 10 * (j % 3)) if e[0] == 'n' else e for j, e in enumerate(events)]     # factors in {-1, 0, 1}
    sink = RefSink()
    store = new_store()
    src = rx.from_(mux_events(events, store))
    states = set()
    sink.subscribe_to(src.pipe(rs.cast_as_mux_observable(), rs.state.with_store(store, [op, tap([], states=states)])))
    acc.states.update(states)
    acc.evals += 1
    acc.events += len(events) + 1
    acc.traces += 1
    exp = harness.expected_raw(mk, events)
    sp = harness.status_problem(sink)
    if sp:
        out.append(viol('mux', sp, {'cfg': label, 'events': events, 'error': repr(sink.error)}))
    kind = harness.diff_kind(exp, sink.items)
    if kind:
        out.append(viol('mux', 'fold-' + kind, {'cfg': label, 'events': events, 'expected': exp, 'observed': sink.items}))
    nlives = sum(1 for e in events if e[0] == 'c')
    if case['term'] and len(calls) != nlives:
        out.append(viol('mux', 'terminator-calls-differ-from-lifetimes', {'cfg': label, 'events': events, 'calls': len(calls),
                                                                          'lifetimes': nlives}))
    if pristine is not None and seed_obj != pristine:
        out.append(viol('mux', 'user-seed-mutated', {'cfg': label, 'events': events, 'seed_now': snap(seed_obj)}))
    # identity: mutable objects of different lifetimes (and the user's seed) are never the same object
    life = {}
    lid = 0
    owner = {}
    seed_parts = set(id(p) for p in mutable_parts(seed_obj)) if pristine is not None else set()
    shared = None
    for ev in sink.raw:
        t = type(ev)
        if t is rs.OnCreateMux:
            lid += 1
            life[ev.key] = lid
        elif t is rs.OnNextMux:
            cur = life.get(ev.key)
            for p in mutable_parts(ev.item):
                if id(p) in seed_parts:
                    shared = 'emitted-object-is-the-user-seed'
                o = owner.setdefault(id(p), (cur, p))
                if o[0] != cur and o[1] is p:
                    shared = shared or 'object-shared-between-lifetimes'
    if shared:
        out.append(viol('mux', shared, {'cfg': label, 'events': events}))
    harness.raw_stats(events, acc)
    acc.states.add(fast_hash(drivers_snapshot(store)))
    acc.outcomes.add(fast_hash(repr((label, sink.items))))
    if sum(1 for e in events if e[0] == 'n') >= 2 and len(set(e[1] for e in events)) > 1:
        acc.nontrivial.add(fast_hash(repr(case)))
    return out


def drivers_snapshot(store):
    from ..drivers import store_snapshot
    return store_snapshot(store)


def run_derived(case, acc):
    spec = DERIVED[case['spec']]
    events = [tuple(e) for e in case['events']]
    name = spec[0][0]
    if name in ('min', 'max', 'sum', 'mean'):
        # values {-1, 0}: a running extremum / sum that is 0 (falsy) followed by a negative item
        events = [('n', e[1], e[2] - 2) if e[0] == 'n' else e for e in events]
    if name == 'mean':
        # precondition: mean of an empty key is undefined
        cnt = {}
        empty = False
        for e in events:
            if e[0] == 'c':
                cnt[e[1]] = 0
            elif e[0] == 'n':
                cnt[e[1]] += 1
            elif cnt.pop(e[1]) == 0:
                empty = True
        if empty and len(spec[0]) > 1 and spec[0][1]:
            acc.skipped += 1
            return []
    ctx = opspecs.Ctx(True)
    sink = run_raw_mux(opspecs.build(spec + [['tap', 't']], ctx), events)
    acc.states.update(ctx.states)
    acc.evals += 1
    acc.events += len(events) + 1
    acc.traces += 1
    exp = harness.expected_raw(spec, events)
    if name in ('mean', 'sum'):
        # the fold definition is mathematical; the last bits of a float depend on the summation algorithm
        rnd = lambda ev: (ev[0], ev[1], float('%.12g' % ev[2])) if (ev[0] == 'n' and isinstance(ev[2], float)) else ev
        exp = [rnd(e) for e in exp]
        sink.items = [rnd(e) for e in sink.items]
    out = []
    sp = harness.status_problem(sink)
    if sp:
        out.append(viol(name, sp, {'spec': spec, 'events': events, 'error': repr(sink.error)}))
    kind = harness.diff_kind(exp, sink.items)
    if kind:
        out.append(viol(name, 'fold-' + kind, {'spec': spec, 'events': events, 'expected': exp, 'observed': sink.items}))
    harness.raw_stats(events, acc)
    acc.states.add(fast_hash(drivers_snapshot(sink.store)))
    acc.outcomes.add(fast_hash(repr((spec, sink.items))))
    if sum(1 for e in events if e[0] == 'n') >= 2 and len(set(e[1] for e in events)) > 1:
        acc.nontrivial.add(fast_hash(repr(case)))
    return out


def run_dist(case, acc):
    """dist.update: embedded in a mux stream vs folding distogram.update over each lifetime's items."""
    import distogram
    events = [tuple(e) for e in case['events']]
    sig = lambda h: (list(h.bins), h.min, h.max)
    out = []
    for reduce in (False, True):
        sink = RefSink()
        store = new_store()
        src = rx.from_(mux_events(events, store))
        sink.items = []
        sink.subscribe_to(src.pipe(rs.cast_as_mux_observable(),
                                   rs.state.with_store(store, [rs.math.dist.update(bin_count=3, reduce=reduce),
                                                               rs.ops.map(sig)])))
        acc.evals += 1
        acc.events += len(events) + 1
        acc.traces += 1

        class Fold(object):
            def __init__(self):
                self.h = distogram.Distogram(bin_count=3)

            def item(self, x):
                self.h = distogram.update(self.h, x)
                return [] if reduce else [sig(self.h)]

            def end(self):
                return [sig(self.h)] if reduce else []
        exp = harness.expected_raw(Fold, events)
        sp = harness.status_problem(sink)
        if sp:
            out.append(viol('dist.update', sp, {'events': events}))
        kind = harness.diff_kind(exp, sink.items)
        if kind:
            out.append(viol('dist.update', 'fold-' + kind, {'events': events, 'reduce': reduce, 'expected': exp,
                                                            'observed': sink.items}))
    harness.raw_stats(events, acc)
    acc.outcomes.add(fast_hash(repr(sink.items)))
    return out


def guards(acc, tier):
    msgs = []
    for name in ('key_index_reused', 'two_live_keys'):
        if acc.counters.get(name, 0) < 1:
            msgs.append('no execution with %s' % name)
    if len(acc.outcomes) < 500:
        msgs.append('fewer than 500 distinct outcomes')
    return msgs
