"""C02 - state confinement: a key lifetime's output depends only on that lifetime's items."""
import functools
import itertools

from .. import opspecs, spaces, harness
from ..drivers import run_raw_mux, lifetimes
from ..engine import fast_hash

ID = 'C02'
TITLE = "State confinement: a key lifetime's output depends only on that lifetime's items"
LEVEL = 'model_checking'
RULE = ('parents that create key lifetimes {group_by, roll x6 (w,s), split, time_split x4, raw-mux streams with interleaved keys and '
        'key-index reuse} and nestings of two parents, around every stateful inner pipeline (scan and derivatives, first, last, '
        'take, distinct, distinct_until_changed, lag, pad_start, pad_end, start_with, batch, assert_1, tee_map with unequal-rate '
        'branches, nested group_by/roll/split/time_split; alone and in depth-2 compositions) x every item sequence up to the '
        'length bound. Oracle (differential, on the real code): the events between OnCreateMux(k) and OnCompletedMux(k) at a tap '
        'in front of the inner pipeline define the lifetimes; what the tap behind the inner pipeline sees for lifetime (k, j) must '
        'equal the output of the same pipeline run standalone (fresh store, one key) on exactly that lifetime\'s items. '
        'Non-trivial = at least two lifetimes of which one reuses a key index or overlaps another in time.')
DEEP_PROBES = ('20 and 150 simultaneously live groups for every inner pipeline')
ASSUMPTIONS = ['inner pipelines are deterministic functions of their input (user functions are pure)',
               'lengths, alphabets and nesting depth beyond the bounds are not covered']
LEVEL_TEXT = ('Bounded-exhaustive model checking with a differential oracle that needs no hand-written expectation: every lifetime '
              'observed inside the real nested pipeline is re-run standalone on the real code. State leaks need a key index that is '
              'reused (or a neighbour slot) while an operator still holds state, i.e. specific histories that the exhaustive '
              'enumeration of parents x inner pipelines x histories contains.')
LEVEL_NOTE = 'Trusted: the tap (pass-through recorder) and the lifetime bracketing; determinism of the pipelines.'
TECHNIQUE = 'stateless bounded-exhaustive differential exploration: embedded key lifetime vs the same real pipeline run standalone'

INNERS = [
    [['scan', 'add', '0']], [['scan', 'append', 'emptylist']], [['scan', 'add', '0', True]], [['count']], [['count', True]],
    [['sum']], [['mean']], [['max']], [['min', True]], [['to_list']], [['first']], [['last']], [['take', 1]], [['take', 2]],
    [['distinct']], [['duc']], [['lag', 1]], [['lag', 2]], [['pad_start', 1]], [['pad_start', 2, 9]], [['pad_end', 1]],
    [['pad_end', 2, 9]], [['start_with', [7]]], [['batch', 2]], [['batch', 3]], [['assert_1_log']], [['variance']],
    [['fvariance']], [['progress', 2]], [['to_array', 'q']],
    [['tee_map', 'zip', [['filter', 'even']], [['identity']]]],
    [['tee_map', 'combine_latest', [['filter', 'even']], [['identity']]]],
    [['tee_map', 'combine_latest', [['count', True]], [['filter', 'even']]]],
    [['tee_map', 'zip', [['last']], [['take', 1]]]],
    [['tee_map', 'merge', [['count', True]], [['filter', 'even']]]],
    [['tee_map', 'zip', [['filter', 'even']], [['filter', 'odd']], [['count']]]],
    [['roll', 2, 1, [['last']]]], [['roll', 2, 2, [['count', True]]]], [['split', 'even', [['count', True]]]],
    [['group_by', 'mod2', [['to_list']]]], [['time_split', None, None, 'even', True, [['to_list']], 'ident']],
    [['roll', 3, 2, [['tee_map', 'combine_latest', [['last']], [['filter', 'even']]]]]],
]
CORE = [['filter', 'even'], ['scan', 'add', '0'], ['count'], ['last'], ['take', 1], ['duc'], ['lag', 1], ['pad_end', 1, 9],
        ['batch', 2], ['distinct'], ['first'], ['start_with', [7]]]
LISTY = {'batch'}
INT_IN = {'filter', 'scan'}

PARENTS = ['group_by', 'roll11', 'roll22', 'roll21', 'roll32', 'roll23', 'roll31', 'split', 'ts_close_inc', 'ts_close_exc',
           'ts_inactive', 'ts_active']


def _log_pred(log):
    def p(a, b):
        log.append((a, b))
        return True
    return p


opspecs.op('assert_1_log', lambda c: __import__('rxsci').ops.assert_1(_log_pred(c.log('a1'))), lambda: opspecs.M.Map(lambda x: x))


def inners(tier):
    out = list(INNERS)
    for a, b in itertools.product(CORE, repeat=2):
        if a[0] in LISTY and b[0] in INT_IN:
            continue
        if a[0] == 'lag' and b[0] in INT_IN:
            continue
        if a[0] in LISTY and b[0] == 'distinct':     # distinct needs hashable items
            continue
        out.append([a, b])
    return out


def wrap(parent, inner):
    if parent == 'group_by':
        return [['group_by', 'mod2', inner]]
    if parent.startswith('roll'):
        return [['roll', int(parent[4]), int(parent[5]), inner]]
    if parent == 'split':
        return [['split', 'even', inner]]
    if parent == 'ts_close_inc':
        return [['time_split', None, None, 'even', True, inner, 'ident']]
    if parent == 'ts_close_exc':
        return [['time_split', None, None, 'even', False, inner, 'ident']]
    if parent == 'ts_inactive':
        return [['time_split', None, 2, None, True, inner, 'ident']]
    if parent == 'ts_active':
        return [['time_split', 3, None, None, True, inner, 'ident']]
    raise ValueError(parent)


def bounds(tier):
    return {'parents': PARENTS, 'inner_pipelines': len(inners(tier)), 'max_len': 5 if tier == 'quick' else 6,
            'raw_depth': 7 if tier == 'quick' else 8, 'nestings': 'all pairs of parents' if tier != 'quick' else 'selected pairs'}


def units(tier):
    out = []
    L = 5 if tier == 'quick' else 6
    inn = inners(tier)
    for p in PARENTS:
        for part in spaces.shard(list(range(len(inn))), 6):
            out.append({'fam': 'one', 'parents': [p], 'inners': part, 'L': L, 'tier': tier})
    pairs = list(itertools.product(PARENTS, repeat=2))
    if tier == 'quick':
        pairs = [('group_by', 'roll21'), ('roll21', 'group_by'), ('split', 'roll22'), ('roll32', 'split'), ('group_by', 'split'),
                 ('roll22', 'roll21'), ('split', 'ts_close_inc'), ('ts_close_exc', 'roll21'), ('group_by', 'group_by'),
                 ('roll31', 'roll23'), ('ts_inactive', 'split'), ('roll21', 'ts_active')]
    nin = len(INNERS)
    if tier != 'quick':
        # nestings of three lifetime creators
        for pp in itertools.product(['group_by', 'roll21', 'roll22', 'split', 'ts_close_inc'], repeat=3):
            out.append({'fam': 'two', 'parents': list(pp), 'inners': list(range(nin)), 'L': 3, 'tier': tier})
    for pp in pairs:
        for part in spaces.shard(list(range(nin)), 2 if tier == 'quick' else 4):
            out.append({'fam': 'two', 'parents': list(pp), 'inners': part, 'L': L - 1, 'tier': tier})
    d = 7 if tier == 'quick' else 8
    n = 16 if tier == 'quick' else 64
    for sh in range(n):
        out.append({'fam': 'raw', 'depth': d, 'shard': [sh, n], 'tier': tier})
    for part in spaces.shard(list(range(len(inn))), 8):
        out.append({'fam': 'many', 'inners': part, 'tier': tier})
    out.append({'fam': 'sources', 'tier': tier})
    out.append({'fam': 'sameobj', 'tier': tier})
    return out


SAMEOBJ = [[['count']], [['scan', 'add', '0']], [['last']], [['to_list']], [['distinct']], [['take', 2]], [['lag', 1]], [['lag', 2]], [['first']],
           [['duc']], [['pad_start', 1]], [['pad_end', 1]], [['start_with', [7]]], [['batch', 2]], [['sum']], [['mean']], [['min']], [['max', True]],
           [['variance']], [['fstddev', True]], [['roll', 2, 1, [['to_list']]]], [['split', 'even', [['count', True]]]],
           [['group_by', 'mod2', [['count', True]]]]]


def cases(unit):
    fam = unit['fam']
    if fam == 'sameobj':
        # ONE operator object placed twice in the same pipeline (both branches of a tee_map): each place has its own state
        for i in range(len(SAMEOBJ)):
            for seq in spaces.sequences([0, 1, 2], 3):
                yield {'fam': 'sameobj', 'op': i, 'seq': seq}
        return
    if fam == 'sources':
        # two sources multiplexed onto ONE store (with_store(store, sources=[...])): each source runs its own stateful pipeline
        pipes = [[['count']], [['scan', 'add', '0']], [['last']], [['to_list']], [['distinct']], [['take', 2]], [['lag', 1]], [['first']],
                 [['group_by', 'mod2', [['count', True]]]], [['roll', 2, 1, [['to_list']]]]]
        for a in range(len(pipes)):
            for b in range(len(pipes)):
                for order in spaces.interleavings([2, 3]):
                    yield {'fam': 'sources', 'pa': pipes[a], 'pb': pipes[b], 'order': order}
        return
    if fam == 'many':
        inn = inners(unit['tier'])
        for ii in unit['inners']:
            for nk in (20, 150):
                yield {'fam': 'many', 'inner': inn[ii], 'nkeys': nk}
        return
    if fam == 'raw':
        sh, n = unit['shard']
        for i, seq in enumerate(spaces.wf_sequences([0, 1], [1, 2], unit['depth'])):
            if i % n == sh:
                yield {'fam': 'raw', 'tier': unit['tier'], 'events': [list(e) for e in seq]}
        return
    inn = inners(unit['tier'])
    for ii in unit['inners']:
        L = unit['L'] - (1 if (unit['tier'] == 'quick' and ii >= len(INNERS)) else 0)
        for seq in spaces.sequences([0, 1, 2], L):
            yield {'fam': fam, 'parents': unit['parents'], 'inner': inn[ii], 'seq': seq}


@functools.lru_cache(maxsize=200000)
def _standalone(inner_key, items):
    import json
    inner = json.loads(inner_key)
    ctx = opspecs.Ctx()
    events = [('c', 0)] + [('n', 0, x) for x in items] + [('d', 0)]
    sink = run_raw_mux(opspecs.build(inner, ctx), events)
    return tuple(repr(e[2]) for e in sink.items if e[0] in ('n', 'e')), harness.status_problem(sink), len(ctx.logs.get('a1', []))


def viol(fam, inner, sym, detail):
    names = '+'.join(sorted(set(harness.opnames(inner))))
    return {'signature': 'C02|%s|%s|%s' % (fam, names, sym), 'detail': detail}


def compare_lifetimes(head, tail, inner, acc, fam, ctxinfo):
    import json
    out = []
    hl, hp = lifetimes(head)
    tl, tp = lifetimes(tail)
    if hp or tp:
        out.append(viol(fam, inner, 'lifecycle-broken', dict(ctxinfo, head_problems=hp[:4], tail_problems=tp[:4])))
        return out, hl
    if [l[0] for l in hl] != [l[0] for l in tl]:
        # creations are forwarded in order by every operator; a different key sequence is a routing defect
        out.append(viol(fam, inner, 'lifetime-keys-differ', dict(ctxinfo, head=[l[0] for l in hl], tail=[l[0] for l in tl])))
        return out, hl
    ikey = json.dumps(inner)
    for h, t in zip(hl, tl):
        exp, sp, _ = _standalone(ikey, tuple(h[1]))
        got = tuple(repr(x) for x in t[1])
        acc.traces += 1
        if sp:
            continue
        if got != exp:
            kind = harness.diff_kind(list(exp), list(got))
            out.append(viol(fam, inner, 'lifetime-output-' + str(kind), dict(
                ctxinfo, key=h[0], lifetime_items=h[1], standalone_output=list(exp), embedded_output=list(got))))
            break
    return out, hl


def run_many(case, acc):
    """Many keys alive at the same time (slot indices far beyond the small alphabets): 20 / 150 groups, each receiving
    four items in three interleaved passes with a gap before the first item reaches the stateful operator."""
    inner, nk = case['inner'], case['nkeys']
    opspecs.FUNCS['mod_nk'] = lambda x, nk=nk: x % nk
    items = list(range(nk)) + [x + nk for x in range(nk)] + [x + 2 * nk for x in range(0, nk, 2)] + [x + 3 * nk for x in range(nk)]
    spec = [['group_by', 'mod_nk', [['tap', 'h']] + inner + [['tap', 't']]]]
    sink, ctx, store = harness.run_api(spec, items)
    acc.evals += 1
    acc.events += len(items) + 1
    out = []
    sp = harness.status_problem(sink)
    if sp:
        out.append(viol('many', inner, sp, {'inner': inner, 'nkeys': nk, 'error': repr(sink.error)}))
    vs, hl = compare_lifetimes(ctx.log('h'), ctx.log('t'), inner, acc, 'many', {'inner': inner, 'nkeys': nk})
    out.extend(vs)
    acc.count('many_live_keys')
    acc.outcomes.add(fast_hash(repr((inner, nk, len(ctx.log('t'))))))
    return out


def run_sources(case, acc):
    import rx
    import rxsci as rs
    from rx.subject import Subject
    from ..drivers import Sink, new_store
    subjects = [Subject(), Subject()]
    store = new_store()
    muxed = rs.state.with_store(store, sources=[s.pipe(rs.ops.mux_observable()) for s in subjects])
    specs = [case['pa'], case['pb']]
    sinks = [Sink(), Sink()]
    for k in (0, 1):
        sinks[k].subscribe_to(muxed[k].pipe(*(opspecs.build(specs[k]) + [rs.ops.demux_observable()])))
    items = [[1, 2], [2, 1, 2]]
    pos = [0, 0]
    for k in case['order']:
        subjects[k].on_next(items[k][pos[k]])
        pos[k] += 1
    for k in (1, 0):
        subjects[k].on_completed()
    acc.evals += 1
    acc.events += 7
    acc.traces += 2
    out = []
    for k in (0, 1):
        exp = harness.model_all(specs[k], items[k])
        if sinks[k].error is not None or sinks[k].completed != 1 or sinks[k].items != exp:
            out.append(viol('sources', specs[k], 'source-%d-output-%s' % (k + 1, harness.diff_kind(exp, sinks[k].items)),
                            {'pipelines': specs, 'order': case['order'], 'expected': exp, 'observed': sinks[k].items, 'error': repr(sinks[k].error)}))
            break
    acc.count('two_sources_one_store')
    acc.outcomes.add(fast_hash(repr((specs, case['order'], sinks[0].items, sinks[1].items))))
    return out


def run_sameobj(case, acc):
    import rx
    import rxsci as rs
    from ..drivers import Sink
    spec = SAMEOBJ[case['op']]
    items = [10 * i + c for i, c in enumerate(case['seq'])]

    def pipeline(shared):
        a = opspecs.build(spec)
        b = a if shared else opspecs.build(spec)
        return [rs.ops.group_by(lambda x: x % 2, [rs.ops.tee_map(a, [rs.ops.map(lambda x: x + 100)] + b, join='merge')])]
    res = []
    for shared in (True, False):
        sink = Sink()
        sink.subscribe_to(rx.from_(items).pipe(rs.state.with_memory_store(pipeline(shared))))
        res.append(sink)
        acc.evals += 1
        acc.events += len(items) + 1
        acc.traces += 1
    acc.count('operator_object_used_twice')
    acc.outcomes.add(fast_hash(repr((spec, res[1].items))))
    if res[1].error is None and (repr(res[0].items) != repr(res[1].items) or res[0].completed != res[1].completed or res[0].error is not None):
        return [viol('sameobj', spec, 'one-operator-object-in-two-places-behaves-differently-from-two-objects',
                     {'operator': spec, 'items': items, 'with_one_object': res[0].items, 'with_two_objects': res[1].items, 'error': repr(res[0].error)})]
    return []


def run_case(case, acc):
    fam = case['fam']
    if fam == 'sources':
        return run_sources(case, acc)
    if fam == 'sameobj':
        return run_sameobj(case, acc)
    if fam == 'raw':
        return run_raw(case, acc)
    if fam == 'many':
        return run_many(case, acc)
    inner, seq = case['inner'], case['seq']
    parents = case['parents']
    items = list(seq)
    if any(p in ('ts_inactive', 'ts_active') for p in parents):
        items = list(itertools.accumulate(seq))       # non-decreasing timestamps
    spec = [['tap', 'h']] + inner + [['tap', 't']]
    for p in reversed(parents):
        spec = wrap(p, spec)
    acc.programs.add(fast_hash(repr(spec)))
    sink, ctx, store = harness.run_api(spec, items, track_states=True)
    acc.evals += 1
    acc.events += len(items) + 1
    out = []
    sp = harness.status_problem(sink)
    if sp:
        out.append(viol(fam, inner, sp, {'spec': spec, 'items': items, 'error': repr(sink.error)}))
    vs, hl = compare_lifetimes(ctx.log('h'), ctx.log('t'), inner, acc, fam, {'parents': parents, 'inner': inner, 'items': items})
    out.extend(vs)
    if inner[0][0] == 'assert_1_log':
        pairs = ctx.logs.get('a1', [])
        ok = set()
        for l in hl:
            ok.update(zip(l[1], l[1][1:]))
        want = sum(max(0, len(l[1]) - 1) for l in hl)
        if len(pairs) != want or any(p not in ok for p in pairs):
            out.append(viol(fam, inner, 'predicate-called-across-lifetimes', {'parents': parents, 'items': items, 'pairs': pairs}))
    acc.states.update(ctx.states)
    acc.outcomes.add(fast_hash(repr((inner, ctx.log('t')))))
    idx = [l[0][0] for l in hl]
    if len(hl) >= 2 and (len(set(idx)) < len(idx)):
        acc.nontrivial.add(fast_hash(repr(case)))
        acc.count('key_index_reused')
    if len(hl) >= 2:
        acc.count('several_lifetimes')
    return out


def run_raw(case, acc):
    events = [tuple(e) for e in case['events']]
    out = []
    for inner in INNERS:
        ctx = opspecs.Ctx(True)
        sink = run_raw_mux(opspecs.build([['tap', 'h']] + inner + [['tap', 't']], ctx), events)
        acc.evals += 1
        acc.events += len(events) + 1
        sp = harness.status_problem(sink)
        if sp:
            out.append(viol('raw', inner, sp, {'inner': inner, 'events': events, 'error': repr(sink.error)}))
        vs, hl = compare_lifetimes(ctx.log('h'), ctx.log('t'), inner, acc, 'raw', {'inner': inner, 'events': events})
        out.extend(vs)
        acc.states.update(ctx.states)
        acc.outcomes.add(fast_hash(repr((inner, ctx.log('t')))))
    harness.raw_stats(events, acc)
    if sum(1 for e in events if e[0] == 'n') >= 2:
        acc.nontrivial.add(fast_hash(repr(case)))
    return out


def guards(acc, tier):
    msgs = []
    for name in ('key_index_reused', 'two_live_keys', 'several_lifetimes'):
        if acc.counters.get(name, 0) < 1:
            msgs.append('no execution with %s' % name)
    if len(acc.outcomes) < 500:
        msgs.append('fewer than 500 distinct outcomes')
    return msgs
