"""Universal mux-boundary monitor (C03): a protocol automaton on every MuxObservable - on those that an rx.pipe composition
produces (named after the operator) and on every one the library constructs at all (MuxObservable.__init__), so that
boundaries stay visible however operators are composed.  Installed in the checker process only."""
import sys

import rx
import rxsci as rs


class Monitor(object):
    def __init__(self):
        self.reset()

    def reset(self):
        self.boundaries = 0
        self.events = 0
        self.problems = []
        self.live = {}
        self.done = {}
        self.names = {}

    def new_boundary(self, name):
        self.boundaries += 1
        b = self.boundaries
        self.live[b] = {}
        self.done[b] = False
        self.names[b] = name
        return b

    def problem(self, b, rule, key):
        if len(self.problems) < 8:
            self.problems.append((rule, self.names.get(b), b, repr(key)))

    def event(self, b, i):
        t = type(i)
        if t is rs.state.ProbeStateTopology:
            return
        self.events += 1
        live = self.live[b]
        if self.done[b]:
            self.problem(b, 'event-after-stream-termination', getattr(i, 'key', None))
        if t is rs.OnNextMux:
            if i.key not in live:
                self.problem(b, 'item-for-key-not-live', i.key)
        elif t is rs.OnCreateMux:
            k = i.key
            if k in live:
                self.problem(b, 'create-of-live-key', k)
            else:
                slot = k[0]
                for other in live:
                    if other[0] == slot:
                        self.problem(b, 'two-live-keys-share-slot-index', (k, other))
                        break
            live[k] = True
        elif t is rs.OnCompletedMux:
            if i.key not in live:
                self.problem(b, 'completion-of-key-not-live', i.key)
            else:
                del live[i.key]
        elif t is rs.OnErrorMux:
            if i.key not in live:
                self.problem(b, 'error-for-key-not-live', i.key)
        else:
            self.problem(b, 'unknown-event', t.__name__)

    def completed(self, b):
        if self.done[b]:
            self.problem(b, 'stream-completed-twice', None)
        self.done[b] = True
        if self.live[b]:
            self.problem(b, 'stream-completed-with-live-keys', sorted(self.live[b], key=repr))

    def errored(self, b):
        self.done[b] = True


MON = Monitor()


_BYPASS = False
_ORIG_INIT = None


class _Spy(object):
    """Pass-through observer feeding the protocol automaton of one subscription (duck-typed: the operators only call
    on_next / on_error / on_completed; nothing is swallowed after termination, so late events stay visible)."""
    __slots__ = ('b', 'inner', 'stopped')

    def __init__(self, b, inner):
        self.b, self.inner, self.stopped = b, inner, False

    # The observer an operator is handed by RxPY stops listening after the first on_completed / on_error (auto-detach), so a
    # subscriber never sees what an operator calls after that (tee_map calls on_completed once per branch).  The automaton is
    # fed what the subscriber gets; events after termination are judged on the pipe-level boundaries, behind that filter.
    def on_next(self, i):
        if not self.stopped:
            MON.event(self.b, i)
        self.inner.on_next(i)

    def on_error(self, e):
        if not self.stopped:
            self.stopped = True
            MON.errored(self.b)
        self.inner.on_error(e)

    def on_completed(self):
        if not self.stopped:
            self.stopped = True
            MON.completed(self.b)
        self.inner.on_completed()


def _monitored_init(self, subscribe=None):
    """Every MuxObservable the library constructs is a boundary, however the operators were composed (rx.pipe, a loop,
    nested calls): its subscribe function gets a spy in front of the observer it is given."""
    if _BYPASS or subscribe is None:
        return _ORIG_INIT(self, subscribe)
    name = 'new:' + getattr(subscribe, '__qualname__', repr(subscribe))

    def monitored(observer, scheduler=None):
        return subscribe(_Spy(MON.new_boundary(name), observer), scheduler)
    return _ORIG_INIT(self, monitored)


def _plain_mux(on_subscribe):
    global _BYPASS
    _BYPASS = True
    try:
        return rs.MuxObservable(on_subscribe)
    finally:
        _BYPASS = False


def _wrap(source, name):
    def on_subscribe(observer, scheduler):
        b = MON.new_boundary(name)      # one automaton per subscription of the boundary

        def on_next(i):
            MON.event(b, i)
            observer.on_next(i)

        def on_completed():
            MON.completed(b)
            observer.on_completed()

        def on_error(e):
            MON.errored(b)
            observer.on_error(e)
        return source.subscribe(on_next=on_next, on_completed=on_completed, on_error=on_error, scheduler=scheduler)
    return _plain_mux(on_subscribe)


def _monitored_pipe(*operators):
    def compose(source):
        for op in operators:
            source = op(source)
            if type(source) is rs.MuxObservable:
                source = _wrap(source, getattr(op, '__qualname__', repr(op)))
        return source
    return compose


_ORIG = None


def install():
    global _ORIG, _ORIG_INIT
    if _ORIG_INIT is None:
        _ORIG_INIT = rs.MuxObservable.__init__
        rs.MuxObservable.__init__ = _monitored_init
    if _ORIG is None:
        _ORIG = rx.pipe
        rx.pipe = _monitored_pipe
        sys.modules['rx.core.pipe'].pipe = _monitored_pipe
        rx.core.pipe = _monitored_pipe


def uninstall():
    global _ORIG, _ORIG_INIT
    if _ORIG_INIT is not None:
        rs.MuxObservable.__init__ = _ORIG_INIT
        _ORIG_INIT = None
    if _ORIG is not None:
        rx.pipe = _ORIG
        sys.modules['rx.core.pipe'].pipe = _ORIG
        rx.core.pipe = _ORIG
        _ORIG = None
