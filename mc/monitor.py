"""Universal mux-boundary monitor (C03): a protocol automaton on every MuxObservable that any
rx.pipe composition produces, installed by patching rx.pipe in the checker process only."""
import sys

import rx
import rxsci as rs


class Monitor(object):
    def __init__(self):
        self.reset()

    def reset(self):
        self.boundaries = 0
        self.events = 0
        self.problems = []
        self.live = {}
        self.done = {}
        self.names = {}

    def new_boundary(self, name):
        self.boundaries += 1
        b = self.boundaries
        self.live[b] = {}
        self.done[b] = False
        self.names[b] = name
        return b

    def problem(self, b, rule, key):
        if len(self.problems) < 8:
            self.problems.append((rule, self.names.get(b), b, repr(key)))

    def event(self, b, i):
        t = type(i)
        if t is rs.state.ProbeStateTopology:
            return
        self.events += 1
        live = self.live[b]
        if self.done[b]:
            self.problem(b, 'event-after-stream-termination', getattr(i, 'key', None))
        if t is rs.OnNextMux:
            if i.key not in live:
                self.problem(b, 'item-for-key-not-live', i.key)
        elif t is rs.OnCreateMux:
            k = i.key
            if k in live:
                self.problem(b, 'create-of-live-key', k)
            else:
                slot = k[0]
                for other in live:
                    if other[0] == slot:
                        self.problem(b, 'two-live-keys-share-slot-index', (k, other))
                        break
            live[k] = True
        elif t is rs.OnCompletedMux:
            if i.key not in live:
                self.problem(b, 'completion-of-key-not-live', i.key)
            else:
                del live[i.key]
        elif t is rs.OnErrorMux:
            if i.key not in live:
                self.problem(b, 'error-for-key-not-live', i.key)
        else:
            self.problem(b, 'unknown-event', t.__name__)

    def completed(self, b):
        if self.done[b]:
            self.problem(b, 'stream-completed-twice', None)
        self.done[b] = True
        if self.live[b]:
            self.problem(b, 'stream-completed-with-live-keys', sorted(self.live[b], key=repr))

    def errored(self, b):
        self.done[b] = True


MON = Monitor()


def _wrap(source, name):
    def on_subscribe(observer, scheduler):
        b = MON.new_boundary(name)      # one automaton per subscription of the boundary

        def on_next(i):
            MON.event(b, i)
            observer.on_next(i)

        def on_completed():
            MON.completed(b)
            observer.on_completed()

        def on_error(e):
            MON.errored(b)
            observer.on_error(e)
        return source.subscribe(on_next=on_next, on_completed=on_completed, on_error=on_error, scheduler=scheduler)
    return rs.MuxObservable(on_subscribe)


def _monitored_pipe(*operators):
    def compose(source):
        for op in operators:
            source = op(source)
            if type(source) is rs.MuxObservable:
                source = _wrap(source, getattr(op, '__qualname__', repr(op)))
        return source
    return compose


_ORIG = None


def install():
    global _ORIG
    if _ORIG is None:
        _ORIG = rx.pipe
        rx.pipe = _monitored_pipe
        sys.modules['rx.core.pipe'].pipe = _monitored_pipe
        rx.core.pipe = _monitored_pipe


def uninstall():
    global _ORIG
    if _ORIG is not None:
        rx.pipe = _ORIG
        sys.modules['rx.core.pipe'].pipe = _ORIG
        rx.core.pipe = _ORIG
        _ORIG = None
