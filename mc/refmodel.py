"""Reference interpreter: every operator as an incremental transducer over plain Python lists.

    item(x) -> outputs emitted while x is processed
    end()   -> outputs emitted when the key (or the stream) completes

Semantics are the multiplexed ones stated by the properties (take/first do not end a key
early).  Deliberately boring; says nothing about errors, empty windows, or the order in which
overlapping windows receive one item beyond "opening order" (checks that use the model compare
multisets per step where that order is unspecified).
"""
import copy


def _snap(x):
    if isinstance(x, (list, dict)):
        return copy.deepcopy(x)
    if isinstance(x, tuple):
        return tuple(_snap(i) for i in x)
    return x


class Pipe(object):
    def __init__(self, stages):
        self.stages = stages

    def item(self, x):
        carry = [x]
        for st in self.stages:
            nxt = []
            for y in carry:
                nxt.extend(st.item(y))
            carry = nxt
            if not carry:
                break
        return carry

    def end(self):
        carry = []
        for st in self.stages:
            nxt = []
            for y in carry:
                nxt.extend(st.item(y))
            nxt.extend(st.end())
            carry = nxt
        return carry


class Stage(object):
    def item(self, x):
        return [x]

    def end(self):
        return []


class Map(Stage):
    def __init__(self, f):
        self.f = f

    def item(self, x):
        return [self.f(x)]


class Filter(Stage):
    def __init__(self, p):
        self.p = p

    def item(self, x):
        return [x] if self.p(x) else []


class FlatMap(Stage):
    def item(self, x):
        return list(x)


class Scan(Stage):
    def __init__(self, acc, seed_factory, reduce, terminator):
        self.acc = acc
        self.value = seed_factory()
        self.reduce = reduce
        self.terminator = terminator

    def item(self, x):
        self.value = self.acc(self.value, x)
        return [] if self.reduce else [_snap(self.value)]

    def end(self):
        out = []
        if self.terminator:
            self.value = self.terminator(self.value)
            if not self.reduce:
                out.append(_snap(self.value))
        if self.reduce:
            out.append(_snap(self.value))
        return out


class Mean(Stage):
    def __init__(self, reduce):
        self.s = 0
        self.n = 0
        self.reduce = reduce

    def item(self, x):
        self.s += x
        self.n += 1
        return [] if self.reduce else [self.s / self.n]

    def end(self):
        return [self.s / self.n] if self.reduce else []


class ToList(Stage):
    def __init__(self, wrap=None):
        self.l = []
        self.wrap = wrap

    def item(self, x):
        self.l.append(x)
        return []

    def end(self):
        l = list(self.l)
        return [self.wrap(l) if self.wrap else l]


class Take(Stage):
    def __init__(self, n):
        self.n = n

    def item(self, x):
        if self.n > 0:
            self.n -= 1
            return [x]
        return []


class Last(Stage):
    def __init__(self):
        self.has = False
        self.v = None

    def item(self, x):
        self.has, self.v = True, x
        return []

    def end(self):
        return [self.v] if self.has else []


class Distinct(Stage):
    def __init__(self, keyf):
        self.keyf = keyf
        self.seen = []

    def item(self, x):
        k = self.keyf(x) if self.keyf else x
        if any(k == s for s in self.seen):
            return []
        self.seen.append(k)
        return [x]


class DistinctUntilChanged(Stage):
    def __init__(self, keyf):
        self.keyf = keyf
        self.has = False
        self.prev = None

    def item(self, x):
        k = self.keyf(x) if self.keyf else x
        if self.has and not (k != self.prev):
            self.prev = k
            return []
        self.has, self.prev = True, k
        return [x]


class Lag(Stage):
    def __init__(self, n):
        self.n = n
        self.hist = []

    def item(self, x):
        self.hist.append(x)
        i = len(self.hist) - 1
        return [(self.hist[max(0, i - self.n)], x)]


class PadStart(Stage):
    def __init__(self, n, v):
        self.n, self.v, self.started = n, v, False

    def item(self, x):
        if self.started:
            return [x]
        self.started = True
        return [self.v if self.v is not None else x] * self.n + [x]


class PadEnd(Stage):
    def __init__(self, n, v):
        self.n, self.v, self.has, self.last = n, v, False, None

    def item(self, x):
        self.has, self.last = True, x
        return [x]

    def end(self):
        if not self.has:
            return []
        return [self.v if self.v is not None else self.last] * self.n


class StartWith(Stage):
    def __init__(self, padding):
        self.padding, self.started = padding, False

    def item(self, x):
        if self.started:
            return [x]
        self.started = True
        return list(self.padding) + [x]


class Batch(Stage):
    def __init__(self, n):
        self.n, self.cur = n, []

    def item(self, x):
        self.cur.append(x)
        if len(self.cur) == self.n:
            out, self.cur = self.cur, []
            return [out]
        return []

    def end(self):
        if self.cur:
            out, self.cur = self.cur, []
            return [out]
        return []


class Sort(Stage):
    def __init__(self, keyf, reverse):
        self.keyf, self.reverse, self.l = keyf, reverse, []

    def item(self, x):
        self.l.append(x)
        return []

    def end(self):
        return sorted(self.l, key=self.keyf, reverse=self.reverse)


# ------------------------------------------------------------------ higher order


class GroupBy(Stage):
    def __init__(self, keyf, child):
        self.keyf, self.child = keyf, child
        self.groups = []   # (key, child) in first-appearance order; lookup by ==

    def item(self, x):
        k = self.keyf(x)
        for gk, g in self.groups:
            if gk == k:
                return g.item(x)
        g = self.child()
        self.groups.append((k, g))
        return g.item(x)

    def end(self):
        out = []
        for _, g in self.groups:
            out.extend(g.end())
        self.groups = []
        return out


class Roll(Stage):
    def __init__(self, window, stride, child):
        self.w, self.s, self.child = window, stride, child
        self.n = 0
        self.open = []     # [start, child] in opening order

    def item(self, x):
        out = []
        if self.n % self.s == 0:
            self.open.append([self.n, self.child()])
        for win in list(self.open):
            out.extend(win[1].item(x))
            if self.n - win[0] + 1 == self.w:
                out.extend(win[1].end())
                self.open.remove(win)
        self.n += 1
        return out

    def end(self):
        out = []
        for win in self.open:
            out.extend(win[1].end())
        self.open = []
        self.n = 0
        return out


class Split(Stage):
    def __init__(self, pred, child):
        self.pred, self.child = pred, child
        self.seg = None
        self.cur = None

    def item(self, x):
        p = self.pred(x)
        out = []
        if self.seg is None:
            self.seg = self.child()
        elif p != self.cur:
            out.extend(self.seg.end())
            self.seg = self.child()
        self.cur = p                      # compared with the PREVIOUS item's value, as stated
        out.extend(self.seg.item(x))
        return out

    def end(self):
        out = self.seg.end() if self.seg is not None else []
        self.seg = None
        return out


class TimeSplit(Stage):
    """Windows may be opened eagerly and stay empty in the implementation; the model keeps
    a lazily opened window and marks outputs of never-fed windows as unspecified by not
    producing them (checks compare non-empty windows only)."""

    def __init__(self, tm, active, inactive, closing, include, child):
        self.tm, self.active, self.inactive = tm, active, inactive
        self.closing, self.include, self.child = closing, include, child
        self.win = None
        self.fed = False
        self.start = self.last = None
        self.begun = False

    def _close(self):
        out = self.win.end() if (self.win is not None and self.fed) else []
        self.win, self.fed = None, False
        return out

    def _feed(self, x):
        if self.win is None:
            self.win = self.child()
        self.fed = True
        return self.win.item(x)

    def item(self, x):
        ts = self.tm(x)
        out = []
        if not self.begun:
            self.begun = True
            self.start = self.last = ts
        expired = (self.active is not None and ts >= self.start + self.active) or \
                  (self.inactive is not None and ts >= self.last + self.inactive)
        if expired:
            out.extend(self._close())
            self.start = self.last = ts
            out.extend(self._feed(x))
        elif self.closing is not None and self.closing(x) is True:
            self.start = self.last = ts
            if self.include:
                out.extend(self._feed(x))
                out.extend(self._close())
            else:
                out.extend(self._close())
                out.extend(self._feed(x))
        else:
            self.last = ts
            out.extend(self._feed(x))
        return out

    def end(self):
        out = self._close()
        self.begun = False
        return out


class TeeMap(Stage):
    def __init__(self, join, branches):
        self.join = join
        self.branches = [b() for b in branches]
        n = len(self.branches)
        self.val = [None] * n
        self.has = [False] * n

    def _join(self, b, ys):
        out = []
        n = len(self.branches)
        for y in ys:
            if self.join == 'merge':
                out.append(y)
            elif self.join == 'zip':
                self.val[b], self.has[b] = y, True
                if all(self.has):
                    out.append(tuple(self.val))
                    self.val, self.has = [None] * n, [False] * n
            else:
                self.val[b] = y
                out.append(tuple(self.val))
        return out

    def item(self, x):
        out = []
        for b, br in enumerate(self.branches):
            out.extend(self._join(b, br.item(x)))
        return out

    def end(self):
        out = []
        for b, br in enumerate(self.branches):
            out.extend(self._join(b, br.end()))
        return out
