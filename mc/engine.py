"""hx engine: enumerate -> shard -> execute -> compare -> evidence / VIOLATION lines.

A check module provides
    ID, TITLE, LEVEL, RULE, ASSUMPTIONS
    units(tier)            -> list of small picklable unit descriptors
    cases(unit)            -> iterator of JSON-able case descriptors of that unit
    run_case(case, acc)    -> list of violation dicts ({'signature','size','detail'}); also
                              feeds counters into acc (events, states, outcomes, guards ...)
    guards(acc, tier)      -> list of messages for vacuity guards that failed (optional)

Both the explorer and `python -m mc.replay` call the same run_case, so a replay file is
replayed without the explorer.
"""
import hashlib
import json
import multiprocessing
import os
import subprocess
import sys
import time
import traceback
from array import array
from fnmatch import fnmatchcase

import numpy as np

from . import VERIF

MASK = (1 << 63) - 1


def h64(obj):
    """Deterministic 63-bit hash (process runs with PYTHONHASHSEED=0)."""
    if not isinstance(obj, (str, bytes)):
        obj = repr(obj)
    if isinstance(obj, str):
        obj = obj.encode('utf-8', 'surrogatepass')
    return int.from_bytes(hashlib.blake2b(obj, digest_size=8).digest(), 'little') & MASK


def fast_hash(obj):
    """hash() based, valid because PYTHONHASHSEED=0 is enforced by __main__."""
    return hash(obj) & MASK


class HashBag(object):
    """Set of 63-bit hashes, memory-lean (numpy) so that 10^7 entries fit."""

    def __init__(self):
        self.small = set()
        self.big = None

    def add(self, value):
        self.small.add(value)

    def update(self, values):
        self.small.update(values)
        if len(self.small) > 2000000:
            self._compact()

    def _compact(self):
        arr = np.fromiter(self.small, dtype=np.uint64, count=len(self.small))
        self.small = set()
        if self.big is None:
            self.big = np.unique(arr)
        else:
            self.big = np.union1d(self.big, arr)

    def __len__(self):
        if self.big is None:
            return len(self.small)
        self._compact()
        return int(self.big.shape[0])

    def dump(self):
        return array('Q', self.small).tobytes() if self.big is None else None

    def load(self, data):
        arr = array('Q')
        arr.frombytes(data)
        self.update(arr)


class Acc(object):
    """What one unit (or the whole run) has covered."""

    def __init__(self):
        self.evals = 0          # executions of real code (one per case unless the check says more)
        self.cases = 0
        self.events = 0         # events pushed into real pipelines (= transitions)
        self.traces = 0         # executions compared step by step with the oracle
        self.skipped = 0        # cases outside a stated precondition
        self.states = HashBag()
        self.outcomes = HashBag()
        self.nontrivial = HashBag()
        self.counters = {}
        self.violations = []
        self.nviol = 0
        self.samples = []
        self.harness_errors = []
        self.programs = set()

    def count(self, name, n=1):
        self.counters[name] = self.counters.get(name, 0) + n

    def merge(self, other):
        self.evals += other.evals
        self.cases += other.cases
        self.events += other.events
        self.traces += other.traces
        self.skipped += other.skipped
        self.states.update(other.states.small)
        self.outcomes.update(other.outcomes.small)
        self.nontrivial.update(other.nontrivial.small)
        for k, v in other.counters.items():
            if k.startswith(('max_', 'worst_')):
                self.counters[k] = max(self.counters.get(k, 0), v)
            else:
                self.counters[k] = self.counters.get(k, 0) + v
        self.violations.extend(other.violations)
        self.nviol += other.nviol
        self.harness_errors.extend(other.harness_errors)
        self.programs.update(other.programs)
        for s in other.samples:
            if len(self.samples) < 64:
                self.samples.append(s)


MAX_VIOL_PER_UNIT = 40
UNIT_TIMEOUT = int(os.environ.get('MC_UNIT_TIMEOUT', '900'))


def explore(check, unit, acc, seed=0):
    """Run every case of a unit through check.run_case."""
    n = 0
    for case in check.cases(unit):
        n += 1
        acc.cases += 1
        try:
            vs = check.run_case(case, acc)
        except (MemoryError, OSError) as e:
            # the environment gave out (no memory, no disk space, no file handles) outside the code under test
            if any('/rxsci/' in fr.filename for fr in traceback.extract_tb(sys.exc_info()[2])):
                vs = [{'signature': '%s|unexpected-exception|%s' % (check.ID, _exc_site()), 'size': _size(case),
                       'detail': {'traceback': traceback.format_exc()[-3000:]}}]
            else:
                acc.harness_errors.append('environment failure while running a case: %r' % (e,))
                continue
        except Exception:  # a crash while executing a case is a finding, not noise
            vs = [{
                'signature': '%s|unexpected-exception|%s' % (check.ID, _exc_site()),
                'size': _size(case),
                'detail': {'traceback': traceback.format_exc()[-3000:]},
            }]
        if vs:
            acc.nviol += len(vs)
            for v in vs:
                v.setdefault('size', _size(case))
                v['case'] = case
                if len(acc.violations) < MAX_VIOL_PER_UNIT or \
                        all(x['signature'] != v['signature'] for x in acc.violations):
                    acc.violations.append(v)
        if n == 1 or n == 2 + (seed % 7):
            if len(acc.samples) < 2:
                acc.samples.append(case)
    return acc


def _exc_site():
    tb = traceback.extract_tb(sys.exc_info()[2])
    et = sys.exc_info()[0].__name__
    for fr in reversed(tb):
        if '/rxsci/' in fr.filename:
            return '%s@%s:%s' % (et, os.path.basename(fr.filename), fr.name)
    fr = tb[-1]
    return '%s@%s:%s' % (et, os.path.basename(fr.filename), fr.name)


def _size(case):
    try:
        return len(json.dumps(case, default=repr))
    except Exception:
        return len(repr(case))


_CHECK = None
_SEED = 0


def _worker_init():
    # the library prints (to_deque, error.map, progress); keep workers quiet
    devnull = open(os.devnull, 'w')
    os.dup2(devnull.fileno(), 1)
    sys.stdout = devnull


_UNITS = []
_HISTORY = []


def _run_unit(unit):
    acc = Acc()
    try:
        if hasattr(_CHECK, 'run_unit'):
            _CHECK.run_unit(unit, acc)
        else:
            explore(_CHECK, unit, acc, _SEED)
    except Exception:
        acc.harness_errors.append(traceback.format_exc()[-3000:])
    try:
        idx = _UNITS.index(unit)
    except ValueError:
        idx = None
    _HISTORY.append(idx)
    for v in acc.violations:
        v['unit_history'] = list(_HISTORY)          # the units this worker process has executed so far, this one last
    return acc


def _signatures_of(check, case):
    sink = Acc()
    saved = sys.stdout
    try:
        sys.stdout = open(os.devnull, 'w')
        try:
            vs = check.run_case(case, sink)
        except Exception:
            vs = [{'signature': '%s|unexpected-exception|%s' % (check.ID, _exc_site())}]
    finally:
        sys.stdout = saved
    return sorted(set(x['signature'] for x in vs))


def replay_with_history(check, units, case, sig):
    """Run the cases of `units` (the units one worker process executed, in its order) up to and including `case`, in this
    process: the number of cases executed when `sig` shows on `case`, or None.  Used when a violation seen during exploration
    does not show on the case alone, i.e. when the code under test carries state from one execution to the next
    (module-level or operator-level caches)."""
    if hasattr(check, 'run_unit'):
        return None
    want = json.dumps(jsonable(case), sort_keys=True)
    n = 0
    for k, unit in enumerate(units):
        for c in check.cases(unit):
            n += 1
            sigs = _signatures_of(check, c)
            if k == len(units) - 1 and json.dumps(jsonable(c), sort_keys=True) == want:
                return n if sig in sigs else None
    return None


def load_known():
    path = os.path.join(VERIF, 'known_findings.json')
    if not os.path.exists(path):
        return []
    with open(path) as f:
        return json.load(f).get('findings', [])


def jsonable(obj):
    return json.loads(json.dumps(obj, default=repr))


def run_check(check, tier, seed, workers=None, budget=None, out=sys.stdout):
    global _CHECK, _SEED, _UNITS
    _CHECK, _SEED = check, seed
    t0 = time.time()
    units = list(check.units(tier))
    _UNITS = units
    workers = workers or min(16, os.cpu_count() or 1)
    agg = Acc()
    exhaustive = True
    done_units = 0
    if workers <= 1 or len(units) <= 1:
        saved = sys.stdout
        try:
            sys.stdout = open(os.devnull, 'w')
            for u in units:
                agg.merge(_run_unit(u))
                done_units += 1
                if budget and time.time() - t0 > budget:
                    exhaustive = done_units == len(units)
                    break
        finally:
            sys.stdout = saved
    else:
        ctx = multiprocessing.get_context('fork')
        pool = ctx.Pool(workers, initializer=_worker_init)
        hang = False
        worker_pids = sorted(p.pid for p in pool._pool)
        # units take seconds (quick) to a few minutes (thorough) on an idle machine; the limit leaves room for a loaded one
        unit_timeout = UNIT_TIMEOUT if ('MC_UNIT_TIMEOUT' in os.environ or tier == 'quick') else 4 * UNIT_TIMEOUT
        try:
            it = pool.imap_unordered(_run_unit, units, chunksize=1)
            while done_units < len(units):
                try:
                    res = it.next(timeout=unit_timeout)
                except multiprocessing.TimeoutError:
                    if sorted(p.pid for p in pool._pool) != worker_pids or any(p.exitcode is not None for p in pool._pool):
                        # a worker process died (killed by the system, out of memory ...): its unit is lost, which is not an
                        # observation about the code under test
                        agg.harness_errors.append('a worker process of the explorer died; the run is incomplete')
                    else:
                        hang = True
                    break
                except StopIteration:
                    break
                agg.merge(res)
                done_units += 1
                if budget and time.time() - t0 > budget:
                    exhaustive = done_units == len(units)
                    break
        finally:
            pool.terminate()
            pool.join()
        if hang:
            # no unit finished for UNIT_TIMEOUT seconds (units take seconds): some execution of the real code does not terminate
            exhaustive = False
            agg.nviol += 1
            agg.violations.append({'signature': '%s|execution-does-not-terminate' % check.ID, 'size': 0,
                                   'case': {'hang': True, 'units_done': done_units, 'units': len(units)},
                                   'detail': {'note': 'no unit completed within %d s' % unit_timeout}})
    wall = time.time() - t0

    if agg.harness_errors and not agg.violations:
        print('HARNESS-ERROR in %s (%d units): %s' % (check.ID, len(agg.harness_errors), agg.harness_errors[0]), file=out)
        write_evidence(check, tier, seed, agg, wall, exhaustive, len(units), done_units, 0, note='harness error')
        return 2
    if agg.harness_errors:
        # violations found by other units are still reported below; the run is not exhaustive
        print('HARNESS-ERROR in %s (%d units): %s' % (check.ID, len(agg.harness_errors), agg.harness_errors[0]), file=out)
        exhaustive = False

    # ---- violations: smallest per signature, double replay, known findings ----------
    by_sig = {}
    counts = {}
    for v in agg.violations:
        sig = v['signature']
        counts[sig] = counts.get(sig, 0) + 1
        best = by_sig.get(sig)
        key = (v.get('size', 0), json.dumps(v['case'], default=repr, sort_keys=True))
        if best is None or key < best[0]:
            by_sig[sig] = (key, v)
    known = [k for k in load_known() if k.get('property') == check.ID and k.get('status') == 'open']
    new_violations = 0
    lines = []
    for sig in sorted(by_sig):
        v = by_sig[sig][1]
        if isinstance(v['case'], dict) and v['case'].get('hang'):
            path = write_replay(check, v, counts[sig])
            new_violations += 1
            lines.append('VIOLATION property=%s replay=%s signature=%s cases=%d' % (check.ID, path, sig, counts[sig]))
            continue
        # replay twice in this process before believing it
        confirmed = [_signatures_of(check, v['case']) for _ in range(2)]
        if confirmed[0] != confirmed[1] or sig not in confirmed[0]:
            # The oracle of a case depends on that case only, and the unchanged tree gives the same verdict in every process,
            # so a verdict that changes with what ran before means that the code under test keeps state across executions.
            # Reproduce it with its history: the cases of its unit, in order, in one process.
            hist = v.pop('unit_history', None) or []
            hunits = [units[i] for i in hist] if hist and all(i is not None for i in hist) else None
            v = dict(v, detail=dict(v.get('detail') or {}, history_dependent=(
                'this case alone gives %r; the violation showed when other cases had been executed before it in the same process '
                '(state kept across executions by the code under test)' % (confirmed,))))
            reproduced = False
            if hunits is not None:
                # a fresh interpreter (this process has already executed cases): first the unit of the case alone, then
                # everything its worker had executed before it
                for cand in ([hunits[-1]], hunits) if len(hunits) > 1 else ([hunits[-1]],):
                    v['history'] = {'units': cand}
                    path = write_replay(check, v, counts[sig])
                    r = subprocess.run([sys.executable, '-m', 'mc.replay', path], cwd=VERIF, capture_output=True, text=True,
                                       env=dict(os.environ, PYTHONHASHSEED='0'))
                    if r.returncode == 1:
                        reproduced = True
                        break
            if not reproduced:
                v.pop('history', None)
                if sig not in confirmed[0] and sig not in confirmed[1]:
                    v['detail']['history_dependent'] += '; not reproduced from the history of its worker: seen during exploration only'
        path = write_replay(check, v, counts[sig])
        match = [k for k in known if fnmatchcase(sig, k.get('signature', ''))]
        if match:
            lines.append('KNOWN-FINDING: property=%s %s [%s] (%d cases, smallest: %s)' % (
                check.ID, match[0].get('what', ''), sig, counts[sig], path))
        else:
            new_violations += 1
            lines.append('VIOLATION property=%s replay=%s signature=%s cases=%d' % (check.ID, path, sig, counts[sig]))

    failed_guards = []
    if hasattr(check, 'guards') and exhaustive:
        failed_guards = list(check.guards(agg, tier) or [])

    write_evidence(check, tier, seed, agg, wall, exhaustive, len(units), done_units, new_violations)
    for l in lines:
        print(l, file=out)
    print('%s %s: units=%d cases=%d executions=%d events=%d states=%d outcomes=%d traces=%d skipped=%d '
          'violations=%d(new %d) wall=%.1fs exhaustive=%s' % (
              check.ID, tier, done_units, agg.cases, agg.evals, agg.events, len(agg.states), len(agg.outcomes),
              agg.traces, agg.skipped, agg.nviol, new_violations, wall, exhaustive), file=out)
    if agg.counters:
        print('  counters: ' + ' '.join('%s=%s' % kv for kv in sorted(agg.counters.items())), file=out)
    if new_violations:
        return 1
    if failed_guards:
        for g in failed_guards:
            print('VACUITY-GUARD failed: %s' % g, file=out)
        return 2
    return 0


def write_replay(check, v, ncases):
    d = os.path.join(os.environ.get('MC_REPLAY_DIR') or os.path.join(VERIF, 'replays'), check.ID)
    os.makedirs(d, exist_ok=True)
    name = hashlib.sha1(v['signature'].encode()).hexdigest()[:12] + '.json'
    path = os.path.join(d, name)
    rec = {
        'property': check.ID,
        'signature': v['signature'],
        'cases_with_this_signature': ncases,
        'case': jsonable(v['case']),
        'detail': jsonable(v.get('detail')),
        'history': jsonable(v.get('history')),
        'replay_cmd': 'cd /verif && PYTHONHASHSEED=0 /venv/bin/python -m mc.replay %s' % path,
    }
    if hasattr(check, 'unit_test'):
        try:
            rec['unit_test'] = check.unit_test(v['case'])
        except Exception:
            pass
    with open(path, 'w') as f:
        json.dump(rec, f, indent=1, default=repr)
    return path


def write_evidence(check, tier, seed, agg, wall, exhaustive, nunits, done_units, new_violations, note=None):
    evdir = os.environ.get('MC_EVIDENCE_DIR') or os.path.join(VERIF, 'evidence')
    os.makedirs(evdir, exist_ok=True)
    samples = agg.samples[:]
    if samples:
        k = seed % len(samples)
        samples = samples[k:] + samples[:k]
    samples = [jsonable(s) for s in samples[:4]]
    cov = {
        'evaluations': agg.evals,
        'distinct_nontrivial': len(agg.nontrivial),
        'rule': check.RULE + (' Deep probes (a fixed sparse grid of large configurations, every point executed): ' + check.DEEP_PROBES + '.'
                              if getattr(check, 'DEEP_PROBES', None) else ''),
        'samples': samples,
        'states': len(agg.states),
        'transitions': agg.events,
        'traces_validated_against_impl': agg.traces,
        'exhaustive': bool(exhaustive),
        'cases': agg.cases,
        'distinct_outcomes': len(agg.outcomes),
        'skipped_outside_precondition': agg.skipped,
        'units': nunits,
        'units_completed': done_units,
        'counters': dict(sorted(agg.counters.items())),
        'bounds': check.bounds(tier) if hasattr(check, 'bounds') else {},
    }
    if agg.programs:
        cov['programs'] = len(agg.programs)
    if note:
        cov['note'] = note
    ev = {
        'property_id': check.ID,
        'tier': tier,
        'seed': int(seed),
        'level': check.LEVEL,
        'coverage': cov,
        'assumptions': list(check.ASSUMPTIONS),
        'wall_s': round(wall, 2),
        'violations': int(new_violations),
        'violating_cases_total': int(agg.nviol),
    }
    path = os.path.join(evdir, '%s.json' % check.ID)
    tmp = '%s.tmp.%d' % (path, os.getpid())
    with open(tmp, 'w') as f:
        json.dump(ev, f, indent=1)
    os.replace(tmp, path)
    return path
