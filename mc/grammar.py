"""Typed grammar of dual-mode pipelines (C01): only well-typed compositions are generated, so that
user functions are total and accumulators keep the seed's type (the stated preconditions)."""
import functools

ANY = ('I', 'F', 'O', 'P', 'L', 'A')


def _all(out):
    return {t: (out if out != 'same' else t) for t in ANY}


# (operator spec, {input type: output type})
OPS_T = [
    (['map', 'inc'], {'I': 'I', 'F': 'F'}),
    (['map', 'tofloat'], {'I': 'F'}),
    (['map', 'pairup'], {'I': 'P'}),
    (['map', 'none_if_odd'], {'I': 'O'}),
    (['map', 'dup'], {'I': 'L'}),
    (['starmap', 'tsum'], {'P': 'I'}),
    (['filter', 'even'], {'I': 'I'}),
    (['filter', 'notnone'], {'O': 'I'}),
    (['flat_map'], {'L': 'I', 'P': 'I'}),
    (['scan', 'add', '0'], {'I': 'I'}),
    (['scan', 'add', '0', True], {'I': 'I'}),
    (['scan', 'addf', '0.0'], {'I': 'F', 'F': 'F'}),
    (['scan', 'add', '0', False, 't_neg'], {'I': 'I'}),
    (['scan', 'append', 'emptylist'], _all('A')),
    (['scan', 'append', 'f:emptylist', True], _all('A')),
    (['scan', 'append', 'emptylist', True, 't_len'], _all('I')),
    (['count'], _all('I')),
    (['count', True], _all('I')),
    (['sum'], {'I': 'F', 'F': 'F'}),
    (['sum', True], {'I': 'F', 'F': 'F'}),
    (['mean'], {'I': 'F', 'F': 'F'}),
    (['mean', True], {'I': 'F', 'F': 'F'}),
    (['min'], {'I': 'I', 'F': 'F'}),
    (['max', True], {'I': 'O', 'F': 'A'}),
    (['variance'], {'I': 'F', 'F': 'F'}),
    (['stddev', True], {'I': 'F', 'F': 'F'}),
    (['fvariance', True], {'I': 'F', 'F': 'F'}),
    (['fstddev'], {'I': 'F', 'F': 'F'}),
    (['first'], _all('same')),
    (['last'], _all('same')),
    (['take', 0], _all('same')),
    (['take', 1], _all('same')),
    (['take', 2], _all('same')),
    (['to_list'], _all('A')),
    (['to_array', 'q'], {'I': 'A'}),
    (['duc'], _all('same')),
    (['clip', 0, 1], {'I': 'I', 'F': 'F'}),
    (['fill_none', 5], {'O': 'I', 'I': 'I'}),
    (['batch', 1], _all('A')),
    (['batch', 2], _all('A')),
    (['identity'], _all('same')),
    (['do_action', 'da'], _all('same')),
    (['assert', 'true'], _all('same')),
    (['assert_1', 'anypair'], _all('same')),
    (['progress', 2], _all('same')),
    (['map', 'tenth'], {'I': 'F'}),
    (['scan', 'mulsign', '1.0'], {'I': 'F'}),
    (['scan', 'mulsign', '1.0', True], {'I': 'F'}),
]
CORE = [0, 6, 9, 10, 16, 17, 19, 29, 31, 33, 35, 39]     # 12-operator core used at depth 3 in the quick tier

COMPLETION_TRIGGERED = {'last', 'to_list', 'to_array', 'batch'}
ENDS_EARLY = {'take', 'first'}


def completion_triggered(o):
    if o[0] in COMPLETION_TRIGGERED:
        return True
    if o[0] in ('count', 'sum', 'mean', 'min', 'max', 'variance', 'stddev', 'fvariance', 'fstddev') and len(o) > 1 and o[1] is True:
        return True
    if o[0] == 'scan' and ((len(o) > 3 and o[3]) or (len(o) > 4 and o[4])):
        return True
    return False


def branch_ok(pipeline):
    """C01 restriction: inside tee_map no completion-triggered operator after take/first."""
    early = False
    for o in pipeline:
        if early and completion_triggered(o):
            return False
        if o[0] in ENDS_EARLY:
            early = True
    return True


def aliasing_hazard(pipeline):
    """A streaming scan whose accumulator is mutated in place emits the SAME live object on every item.  Behind take/first
    a plain observable disposes the scan while a multiplexed key keeps feeding it, so an object retained downstream keeps
    changing in one mode only.  That is a consequence of the user's mutating accumulator plus the documented completion
    difference, not of multiplexing; such programs are outside what C01 states and are not generated."""
    live = False
    for o in pipeline:
        if o[0] == 'scan' and o[1] == 'append' and not (len(o) > 3 and o[3]):
            live = True
        elif live and o[0] in ENDS_EARLY:
            return True
    return False


def pipelines(depth, in_type='I', ops=None):
    """All well-typed pipelines of exactly `depth` operators: list of (pipeline, out_type)."""
    ops = OPS_T if ops is None else ops
    if depth == 0:
        return [([], in_type)]
    out = []
    for head, t in pipelines(depth - 1, in_type, ops):
        for spec, sig in ops:
            if t in sig and not aliasing_hazard(head + [spec]):
                out.append((head + [spec], sig[t]))
    return out


BRANCH_OPS = [0, 6, 9, 16, 17, 19, 29, 31, 33, 40]        # operators used inside tee_map branches


@functools.lru_cache(maxsize=None)
def tee_programs(nbranch_depth=2):
    """tee_map programs: 2 branches of depth <= 2 (3 branches for a subset), three join modes."""
    bops = [OPS_T[i] for i in BRANCH_OPS]
    branches = [p for d in (1, 2) for p, _ in pipelines(d, 'I', bops) if branch_ok(p)]
    one = [p for p, _ in pipelines(1, 'I', bops)]
    progs = []
    for join in ('zip', 'merge', 'combine_latest'):
        for a in one:
            for b in branches:
                progs.append([['tee_map', join, a, b]])
        for a in branches[len(one):][::7]:
            for b in one:
                progs.append([['tee_map', join, a, b]])
        for (a, b, c) in [(one[0], one[1], one[3]), (one[1], one[6], one[4]), (one[7], one[1], one[2])]:
            progs.append([['tee_map', join, a, b, c]])
    return progs


@functools.lru_cache(maxsize=None)
def programs(tier):
    progs = []
    for d in (1, 2):
        progs += [p for p, _ in pipelines(d)]
    if tier == 'quick':
        core = [OPS_T[i] for i in CORE]
        progs += [p for p, _ in pipelines(3, 'I', core)]
        tees = tee_programs()
        progs += tees[::3]
        # tee_map followed / preceded by an operator
        progs += [[['map', 'inc']] + t for t in tees[::40]] + [t + [['count']] for t in tees[::40]]
        # flat_map needs a list/pair producer in front: every operator behind [producer, flat_map]
        for head in ([['map', 'dup'], ['flat_map']], [['map', 'pairup'], ['flat_map']]):
            progs += [head + p for p, _ in pipelines(1)]
    else:
        progs += [p for p, _ in pipelines(3)]
        core8 = [OPS_T[i] for i in (0, 6, 9, 17, 19, 29, 31, 35)]        # map, filter, scan, count(reduce), sum(reduce), last, take(1), duc
        progs += [p for p, _ in pipelines(4, 'I', core8)]
        for head in ([['map', 'dup'], ['flat_map']], [['map', 'pairup'], ['flat_map']]):
            progs += [head + p for p, _ in pipelines(2, 'I', core8)]
        tees = tee_programs()
        progs += tees
        progs += [[['map', 'inc']] + t for t in tees[::5]] + [t + [o] for t in tees[::5] for o in (['count'], ['last'], ['to_list'])]
    return progs
