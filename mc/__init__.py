"""Bounded-exhaustive model checking of maki-nage/rxsci (see /verif/DESIGN.md).

The package imports rxsci from /repo's working tree; nothing is copied or built.
"""
import os
import sys

REPO = os.environ.get('RXSCI_REPO', '/repo')
VERIF = os.path.dirname(os.path.dirname(os.path.abspath(__file__)))

if REPO not in sys.path[:1]:
    sys.path.insert(0, REPO)


def import_rxsci():
    import rxsci
    path = os.path.abspath(rxsci.__file__)
    if not path.startswith(os.path.abspath(REPO) + os.sep):
        raise RuntimeError('rxsci imported from %s, expected under %s' % (path, REPO))
    return rxsci
